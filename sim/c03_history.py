"""C03 -- laws load and mean the same for every import order and creation history.

System: one Python process whose state is (per-prefix name counters, set of executed
catalogue modules, SymPy cache, hash seed). A run is an explicit history of real imports,
real object creations, forward counter jumps and cache evictions, followed by observations.
Oracle: the same tree under the canonical history (fresh process -> import M alone), per
zygote configuration.
"""
from __future__ import annotations

import ast
import os

from . import core

PROP = "C03"
BATCH = 512
BUDGET_S = {"quick": 130, "thorough": 1800}
MAX_RUNS = {"quick": 600, "thorough": 10**9}
MIN_RUNS = {"quick": 250, "thorough": 2000}  # random runs executed even when the systematic part used up the budget
ENV0 = {"hashseed": 0, "cache": 1000}
ENVS = [ENV0, {"hashseed": 1, "cache": 1000}, {"hashseed": 7, "cache": 25}, {"hashseed": 42, "cache": 1000}]
REL_EQ = 1e-11
REL_CALL = 1e-9
PREFIXES = ("SYM", "FUN", "QTY", "SYS", "VEC")

RULE = ("systematic: every catalogue module x {canonical, 3 digit-boundary counter jumps placed inside the module's own allocation "
        "(static dependencies imported first)}; random: seeded histories of 1-40 ops (real imports in random order, real creations, forward "
        "counter jumps to L*10^d-j, cache evictions, calculate_* use) followed by observation of 1-3 target modules. A run is non-trivial if at "
        "least one perturbation op fired before an observed module was first imported; distinct = distinct event-log digests")
STATE_MEASURE = "distinct (module, leading-digit/length class of the SYM counter at its first import, imported-as-dependency-first flag) triples"
COMPONENTS = {
    "real": ["symplyphysics (all catalogue modules, core)", "SymPy", "CPython import system", "calculate_* functions"],
    "stubbed": ["bulk creation replaced by forward counter jumps in part of the histories (equivalence sampled in the self-test)"],
    "quick_tier_omits": ["the repo's own test files run inside perturbed children (oracle V5, thorough tier only)"],
}
ASSUMPTIONS = [
    "self-differential oracle: the reference is the same tree under the canonical history in the same zygote configuration; the only absolute demand is that import succeeds",
    "a forward counter jump stands for that many creations whose objects were dropped (sample-tested equivalence, not a theorem)",
    "numeric equation fingerprints at two points per side (30-digit inputs, 20-digit evaluation); equations that do not evaluate numerically are compared structurally and differences there are reported as 'suspect', never as violations",
    "calculate_* functions are called with one argument tuple built from their decorator specs; functions with unguarded or sequence parameters are skipped",
    "time-boxed evaluations that time out on either side are inconclusive, never verdicts",
]

# ============================================================================ tree facts (driver side)

_CACHE: dict = {}


def _root() -> str:
    return os.path.join(core.REPO, "symplyphysics")


def modules() -> list[str]:
    if "modules" not in _CACHE:
        out = []
        for top in ("laws", "definitions", "conditions"):
            base = os.path.join(_root(), top)
            for dp, dns, fns in os.walk(base):
                dns.sort()
                for fn in sorted(fns):
                    if fn.endswith(".py") and fn != "__init__.py":
                        rel = os.path.relpath(os.path.join(dp, fn), core.REPO)[:-3]
                        out.append(rel.replace(os.sep, "."))
        _CACHE["modules"] = sorted(out)
    return _CACHE["modules"]


def _exists(modname: str) -> bool:
    p = os.path.join(core.REPO, *modname.split("."))
    return os.path.isfile(p + ".py")


def _source(modname: str) -> str:
    key = "src:" + modname
    if key not in _CACHE:
        try:
            _CACHE[key] = open(os.path.join(core.REPO, *modname.split(".")) + ".py", encoding="utf-8").read()
        except OSError:
            _CACHE[key] = ""
    return _CACHE[key]


def static_deps(modname: str) -> list[str]:
    """Direct catalogue dependencies read from the source (pure function of the tree)."""
    key = "deps:" + modname
    if key in _CACHE:
        return _CACHE[key]
    path = os.path.join(core.REPO, *modname.split(".")) + ".py"
    deps: list[str] = []
    try:
        tree = ast.parse(open(path, encoding="utf-8").read())
    except (OSError, SyntaxError):
        tree = ast.Module(body=[], type_ignores=[])
    pkg = modname.rsplit(".", 1)[0]
    for node in ast.walk(tree):
        if isinstance(node, ast.ImportFrom):
            base = node.module or ""
            if node.level:
                parts = modname.split(".")[:-node.level]
                base = ".".join(parts + ([base] if base else []))
            if not base.startswith("symplyphysics."):
                continue
            if _exists(base):
                deps.append(base)
            for a in node.names:
                cand = f"{base}.{a.name}"
                if _exists(cand):
                    deps.append(cand)
        elif isinstance(node, ast.Import):
            for a in node.names:
                if a.name.startswith("symplyphysics.") and _exists(a.name):
                    deps.append(a.name)
    seen = []
    for d in deps:
        if d != modname and d not in seen and d.split(".")[1] in ("laws", "definitions", "conditions"):
            seen.append(d)
    _ = pkg
    _CACHE[key] = seen
    return seen


def dependents(modname: str) -> list[str]:
    """Modules whose source imports `modname` directly."""
    if "rdeps" not in _CACHE:
        r: dict[str, list[str]] = {}
        for m in modules():
            for d in static_deps(m):
                r.setdefault(d, []).append(m)
        _CACHE["rdeps"] = r
    return _CACHE["rdeps"].get(modname, [])


def closure_deps(modname: str) -> list[str]:
    out: list[str] = []
    visiting: set[str] = set()

    def walk(m):
        if m in visiting:
            return  # an import cycle in the source: do not follow it twice
        visiting.add(m)
        for d in static_deps(m):
            if d not in out and d != modname:
                walk(d)
                if d not in out and d != modname:
                    out.append(d)

    walk(modname)
    return out


# ============================================================================ generator


def _boundary(rng) -> int:
    lead = rng.choice([1, 1, 1, 2, 3, 5, 9, 10])
    d = rng.choice([1, 2, 3, 3, 3, 4, 4, 5, 6])
    j = rng.choice([0, 1, 2, 3, 4, 5, 7, 11, 15, -2, -5])
    return max(1, lead * 10**d - j)


def _job(seed, run, env, ops, timeout=240) -> dict:
    return {"prop": PROP, "seed": seed, "run": run, "env": env, "timeout": timeout, "ops": ops}


def generate(seed: int, run: int, tier: str) -> dict:
    rng = core.rng_for(seed, PROP, run, "gen")
    rng2 = core.rng_for(seed, PROP, run, "gen2")
    mods = modules()
    env = rng.choice(ENVS)
    style = rng.choice(["perm", "perm", "jumps", "mixed", "mixed", "deps_then_jump", "heavy_cache", "create", "nearby_calls", "args_early"])
    n_targets = rng.choice([1, 1, 2, 3])
    # bias: half of the targets are modules with in-module derivations (they have deps)
    with_deps = [m for m in mods if static_deps(m)]
    targets = [rng.choice(with_deps if rng.random() < 0.6 and with_deps else mods) for _ in range(n_targets)]
    ops: list = []
    n_pre = {"perm": rng.choice([2, 5, 10, 20]), "jumps": 0, "mixed": rng.choice([1, 3, 8]), "deps_then_jump": 0, "heavy_cache": rng.choice([2, 6]), "create": rng.choice([0, 2]), "nearby_calls": rng.choice([0, 1]), "args_early": 0}[style]
    with_funcs = [m for m in mods if "def calculate_" in _source(m)]
    if style in ("nearby_calls", "args_early") and with_funcs:
        targets = [rng.choice(with_funcs) for _ in range(n_targets)]
    pre = []
    for _ in range(n_pre):
        r = rng.random()
        if r < 0.4 and targets:
            # something related to a target: one of its (transitive) deps, or a module of the same package
            t = rng.choice(targets)
            cl = closure_deps(t)
            same_pkg = [m for m in mods if m.rsplit(".", 1)[0] == t.rsplit(".", 1)[0] and m != t]
            rd = dependents(t)
            if rd and rng.random() < 0.5:
                # a module that imports the target: the target is then first executed as a dependency
                pre.append(rng.choice(rd))
            else:
                pre.append(rng.choice(cl or same_pkg or mods))
        else:
            pre.append(rng.choice(mods))
    for m in pre:
        if style in ("mixed", "heavy_cache") and rng.random() < 0.4:
            ops.append({"op": "clear_cache"})
        if style == "mixed" and rng.random() < 0.3:
            ops.append({"op": "jump", "prefix": rng.choice(["SYM", "SYM", "FUN", "QTY"]), "to": _boundary(rng)})
        if style == "mixed" and rng.random() < 0.2:
            ops.append({"op": "create", "kind": rng.choice(["Symbol", "Function", "Quantity", "CoordinateSystem", "IndexedSymbol", "VectorSymbol", "Symbolic"]), "k": rng.choice([1, 3, 10, 50])})
        if rng.random() < 0.05:
            # one or two pages fail in a row before the caller recovers, either by assigning SymPy's flag
            # or through the library's own reset_sympy_evaluation() ("restores auto processing")
            # (drawn from a stream of their own, so that the rest of the schedule is what it was before these variants existed)
            ops.append({"op": "failed_docs_page", "m": rng.choice(mods), "repeat": rng2.choice([1, 2]), "recover": rng2.choice(["assign", "api"])})
        if rng.random() < 0.06:
            ops.append({"op": "churn_dims", "k": rng.choice([20, 100, 400])})
        if rng.random() < 0.05:
            ops.append({"op": "create", "kind": "Point", "k": rng.choice([1, 3])})
        if rng.random() < 0.12:
            ops.append({"op": "docs_page", "m": m})  # documented before it is ever imported
        ops.append({"op": "import", "m": m})
        if rng.random() < 0.15:
            ops.append({"op": "call", "m": m})
        if rng.random() < 0.08:
            ops.append({"op": "docs_page", "m": m})
        if rng.random() < 0.1:
            ops.append({"op": "print", "m": m})
    if style == "deps_then_jump":
        t = targets[0]
        for d in closure_deps(t):
            ops.append({"op": "import", "m": d})
    if style in ("jumps", "deps_then_jump", "mixed", "create"):
        for prefix in rng.sample(["SYM", "FUN", "QTY"], rng.choice([1, 1, 2, 3])):
            ops.append({"op": "jump", "prefix": prefix, "to": _boundary(rng)})
    if style == "create":
        for _ in range(rng.choice([1, 2, 4])):
            ops.append({"op": "create", "kind": rng.choice(["Symbol", "Function", "Quantity", "CoordinateSystem", "IndexedSymbol", "VectorSymbol", "Symbolic", "Symbolic"]), "k": rng.choice([1, 7, 9, 50, 99, 200])})
    if rng.random() < 0.12:
        # the documentation of the targets themselves (or of a sibling) is generated first
        for t in targets:
            ops.append({"op": "docs_page", "m": t if rng.random() < 0.6 else rng.choice(mods)})
    if style == "nearby_calls":
        # the same functions used shortly before with equal or nearly equal arguments (values that
        # print alike), possibly from a sibling module of the same package
        for t in targets:
            ops.append({"op": "import", "m": t})
            for _ in range(rng.choice([1, 2])):
                ops.append({"op": "call", "m": t, "jitter": rng.choice([1.0, 1.0004, 0.9997, 1.00001, 1.3]), "seqlen": rng.choice([3, 3, 2, 4])})
    if style == "args_early":
        # argument quantities are created first, a lot happens, and only then are they used
        for t in targets:
            ops.append({"op": "prepare_args", "m": t})
        big = rng.choice([60, 700, 9000, 9000])
        ops.append({"op": "create", "kind": "Quantity", "k": big})
        if rng.random() < 0.5:
            ops.append({"op": "jump", "prefix": "QTY", "to": _boundary(rng)})
    if rng.random() < 0.3:
        ops.append({"op": "clear_cache"})
    if rng.random() < 0.15:
        # part of the history happens in another thread of the same process
        for op in ops:
            if op["op"] in ("import", "create") and rng.random() < 0.5:
                op["thread"] = True
        if not any(op.get("thread") for op in ops):
            ops.insert(0, {"op": "create", "kind": rng.choice(["Symbol", "Quantity", "Function"]), "k": rng.choice([1, 3, 30]), "thread": True})
    order = list(targets)
    rng.shuffle(order)
    for t in order:
        ops.append({"op": "observe", "m": t, "use_prepared": True} if style == "args_early" else {"op": "observe", "m": t, "tests": tier == "thorough" and rng.random() < 0.3})
    if rng2.random() < float(os.environ.get("VERIF_C03_NOCACHE_P", "0.06")) and n_pre <= 5 and style != "args_early":
        # environment fault: the whole process runs with SymPy's cache switched off (SYMPY_USE_CACHE=no);
        # the reference is the canonical history under the same environment. Only short histories: a
        # catalogue import costs several times more without the cache (a timeout is inconclusive, never a verdict)
        env = {"hashseed": env["hashseed"], "cache": 1000, "environ": {"SYMPY_USE_CACHE": "no"}}
        return _job(seed, run, env, ops, timeout=90)
    return _job(seed, run, env, ops)


def canonical_job(modname: str, env: dict, tests: bool = False) -> dict:
    return _job(0, f"canon:{modname}", env, [{"op": "observe", "m": modname, "tests": tests, "conditioning": True}])


def _whole_catalogue_job(seed, tag, env, order_seed, n_observe, tests=False) -> dict:
    """Import the entire catalogue in one seeded order (what a long session or a test run does),
    then observe a sample (or all) of the modules."""
    mods = list(modules())
    rng = core.rng_for(seed, PROP, tag, f"order{order_seed}")
    if order_seed == -1:
        mods.sort(reverse=True)
    else:
        rng.shuffle(mods)
    ops = [{"op": "import", "m": m} for m in mods]
    if order_seed == -1:
        # in this job every published equation is also printed (code, latex, pretty) before the observations
        ops += [{"op": "print", "m": m} for m in mods]
    watch = mods if n_observe is None else sorted(rng.sample(mods, n_observe))
    ops += [{"op": "observe", "m": m, "tests": tests} for m in watch]
    return _job(seed, tag, env, ops, timeout=1500)


def _package_order_jobs(seed, tier) -> list[dict]:
    """For every catalogue package: import all of its modules in one seeded order and observe all of
    them, then the same with the order reversed. For any two modules X, M of a package, X is
    imported before M in one of the two jobs, so every ordered pair inside a package is covered."""
    by_pkg: dict[str, list[str]] = {}
    for m in modules():
        by_pkg.setdefault(m.rsplit(".", 1)[0], []).append(m)
    jobs = []
    for pkg in sorted(by_pkg):
        mods = by_pkg[pkg]
        if len(mods) < 2:
            continue
        rng = core.rng_for(seed, PROP, pkg, "pkgorder")
        order = list(mods)
        rng.shuffle(order)
        for tag, seq in (("a", order), ("b", list(reversed(order)))):
            for lo in range(0, len(seq), 24):  # long packages are observed in slices (each job still imports all)
                ops = [{"op": "import", "m": m} for m in seq] + [{"op": "observe", "m": m} for m in seq[lo:lo + 24]]
                jobs.append(_job(seed, f"sys:pkg:{pkg}:{tag}:{lo}", ENV0, ops, timeout=900))
    return jobs


def _sequence_and_vector_jobs(seed) -> list[dict]:
    """Modules whose functions take sequences are first called with another number of components;
    modules whose functions take vectors get their argument vectors created before SymPy's cache is
    cleared and are called afterwards."""
    jobs = []
    for i, m in enumerate(modules()):
        src = _source(m)
        if "Sequence[" in src and "def calculate_" in src:
            for n in (2, 4):
                jobs.append(_job(seed, f"sys:seq:{i}:{n}", ENV0, [{"op": "import", "m": m}, {"op": "call", "m": m, "seqlen": n}, {"op": "observe", "m": m}]))
        if "QuantityVector" in src and "def calculate_" in src:
            jobs.append(_job(seed, f"sys:vec:{i}", ENV0, [{"op": "import", "m": m}, {"op": "prepare_args", "m": m}, {"op": "clear_cache"}, {"op": "create", "kind": "CoordinateSystem", "k": 1}, {"op": "observe", "m": m, "use_prepared": True}]))
    return jobs


def systematic_jobs(tier: str, seed: int, ctx) -> list[dict]:
    jobs = _package_order_jobs(seed, tier) + _sequence_and_vector_jobs(seed)
    if tier == "thorough":
        for i, env in enumerate(ENVS):
            jobs.append(_whole_catalogue_job(seed, f"sys:all:{i}", env, i if i else -1, None))
    else:
        jobs.append(_whole_catalogue_job(seed, "sys:all:0", ENV0, -1, 50))
        jobs.append(_whole_catalogue_job(seed, "sys:all:1", ENVS[2], 1, 50))
    for i, m in enumerate(modules()):
        deps = closure_deps(m)
        pre = [{"op": "import", "m": d} for d in deps]
        # three digit-boundary placements inside the module's *own* allocation
        # the module's own first symbol is SYM<to+1>: 999..996 put the 999/1000 boundary after its
        # 0th..3rd own symbol, 1004 makes all its names sort before the shared ones, 99997 after
        places = [(999, 9, 99), (998, 8, 98), (997, 7, 998), (996, 99, 999), (1004, 98, 97), (99997, 999, 9998)]
        if tier == "thorough":
            places += [(1000 - j, 10 - min(j, 9), 100 - j) for j in range(5, 13)] + [(10000 - j, 100 - j, 1000 - j) for j in range(1, 9)] + [(1999, 10, 100), (299, 19, 29), (99, 1, 999996), (19999, 9, 1999)]
        for v, (to_sym, to_fun, to_qty) in enumerate(places):
            extra = []
            if to_sym == 99997:
                # this placement also carries a creation history: the user's own wrappers whose printed
                # names coincide with catalogue ones, a few functions, quantities and coordinate systems
                extra = [{"op": "create", "kind": "Symbolic", "k": 1}, {"op": "create", "kind": "Function", "k": 3}, {"op": "create", "kind": "CoordinateSystem", "k": 2}]
            # 999 and 99997: the jump comes first, so the module's *dependencies* are imported at the
            # boundary too (as part of the module's own import); the others import the dependencies first
            # so that the boundary falls inside the module's own allocation
            first = list(pre) if to_sym not in (999, 99997) else []
            ops = first + extra + [{"op": "jump", "prefix": "SYM", "to": to_sym}, {"op": "jump", "prefix": "FUN", "to": to_fun}, {"op": "jump", "prefix": "QTY", "to": to_qty}, {"op": "observe", "m": m, "tests": tier == "thorough" and v < 3}]
            jobs.append(_job(seed, f"sys:{i}:{v}", ENV0, ops))
        # the module is imported first, *then* the user creates objects of their own (wrappers, symbols,
        # functions, quantities whose display names coincide with catalogue ones), then the module is used
        # every fourth module: two documentation pages fail first (inside an evaluation-disabled window),
        # the caller recovers through reset_sympy_evaluation()
        failed = [{"op": "failed_docs_page", "m": m, "repeat": 2, "recover": "api"}] if i % 4 == 0 else []
        jobs.append(_job(seed, f"sys:{i}:after", ENV0, failed + [{"op": "import", "m": m}, {"op": "create", "kind": "Symbolic", "k": 1}, {"op": "create", "kind": "Function", "k": 2}, {"op": "create", "kind": "Quantity", "k": 3}, {"op": "create", "kind": "IndexedSymbol", "k": 2}, {"op": "create", "kind": "Point", "k": 2}, {"op": "churn_dims", "k": 40}, {"op": "observe", "m": m}]))
    return jobs


# ============================================================================ child side


def zygote_init() -> None:
    from . import observe  # pylint: disable=import-outside-toplevel,unused-import


def _create(kind: str, k: int) -> None:
    import symplyphysics as sx  # pylint: disable=import-outside-toplevel
    from sympy.physics import units  # pylint: disable=import-outside-toplevel
    keep = []
    for i in range(k):
        if kind == "Symbol":
            keep.append(sx.Symbol("junk", units.length))
        elif kind == "Function":
            keep.append(sx.Function("junk", dimension=units.time))
        elif kind == "Quantity":
            keep.append(sx.Quantity((i + 1) * units.meter))
        elif kind == "CoordinateSystem":
            keep.append(sx.CoordinateSystem())
        elif kind == "IndexedSymbol":
            keep.append(sx.IndexedSymbol("junk", None, units.mass))
        elif kind == "VectorSymbol":
            from symplyphysics.core.experimental.vectors import VectorSymbol  # pylint: disable=import-outside-toplevel
            keep.append(VectorSymbol("junk"))
        elif kind == "Point":
            # the user's own points: created empty, then filled through the setters
            from symplyphysics.core.points.cartesian_point import CartesianPoint  # pylint: disable=import-outside-toplevel
            from symplyphysics.core.points.cylinder_point import CylinderPoint  # pylint: disable=import-outside-toplevel
            from symplyphysics.core.points.sphere_point import SpherePoint  # pylint: disable=import-outside-toplevel
            from symplyphysics.core.points.point import Point  # pylint: disable=import-outside-toplevel
            p1 = CartesianPoint()
            p1.x = 3 + i
            p1.z = 7
            p2 = Point()
            p2.set_coordinate(1, 5)
            p3 = CylinderPoint()
            p3.radius = 2
            p4 = SpherePoint()
            p4.radius = 4
            keep.extend([p1, p2, p3, p4])
        elif kind == "Symbolic":
            # the user's own wrappers (average, finite difference, differentials) around their own
            # symbols, whose display names coincide with those of the shared catalogue symbols
            from symplyphysics.core.operations import symbolic  # pylint: disable=import-outside-toplevel
            if i > 0:
                break  # one pass over all shared symbols, whatever k is
            for name in sorted(n for n in dir(sx.symbols) if isinstance(getattr(sx.symbols, n), sx.Symbol)):
                shared = getattr(sx.symbols, name)
                for wrap in (symbolic.Average, symbolic.FiniteDifference, symbolic.ExactDifferential, symbolic.InexactDifferential):
                    keep.append(wrap(sx.Symbol(shared.display_name, 1 / units.length, display_latex=shared.display_latex)))
        else:
            raise ValueError(kind)


def _docs_page(modname: str) -> str:
    """Generates one documentation page into an in-memory sink with the real generator."""
    import symplyphysics.docs.build as build  # pylint: disable=import-outside-toplevel
    from . import simfs  # pylint: disable=import-outside-toplevel
    fs = simfs.SimFS("/simout/generated")
    build.open = fs.open
    build.os = simfs.OsProxy(fs)
    build.Path = simfs.make_path_class(fs)
    fs.begin(0, [])
    rel = modname.split(".")
    cwd = os.getcwd()
    try:
        os.chdir(core.REPO)
        build._process_law(build.Path(*rel[:-1]), rel[-1] + ".py", "/simout/generated", True)  # pylint: disable=protected-access
        return "ok" if fs.files else "no-page"
    except Exception as e:  # pylint: disable=broad-except
        return f"raised:{type(e).__name__}"
    finally:
        os.chdir(cwd)


def child_run(job: dict) -> dict:
    import sys  # pylint: disable=import-outside-toplevel
    from sympy.core.cache import clear_cache  # pylint: disable=import-outside-toplevel
    from sympy.core.parameters import global_parameters  # pylint: disable=import-outside-toplevel
    from symplyphysics.core.symbols import id_generator  # pylint: disable=import-outside-toplevel
    from . import observe  # pylint: disable=import-outside-toplevel
    ids = observe.COUNTERS  # the public next_id / last_id only
    events = []
    obs = {}
    faults = {"jump": 0, "clear_cache": 0, "create": 0, "import_before": 0, "call_before": 0}
    states = []
    probes = {}
    first_import_counter = {}
    perturbed_before = set()
    steps = 0
    flag_events: dict = {}
    prepared: dict = {}
    before_mods = set(sys.modules)
    for step, op in enumerate(job["ops"]):
        kind = op["op"]
        steps += 1
        outcome = ""
        if op.get("thread") and kind in ("import", "create"):
            # the same op, executed in another (joined) thread of this process
            import threading  # pylint: disable=import-outside-toplevel
            box = {}

            def work(op=op):
                if op["op"] == "import":
                    box["r"] = observe.try_import(op["m"])
                else:
                    _create(op["kind"], int(op["k"]))

            th = threading.Thread(target=work)
            was = op.get("m") in sys.modules
            th.start()
            th.join()
            faults["other_thread"] = faults.get("other_thread", 0) + 1
            if kind == "import":
                outcome = (box.get("r") or (None, "thread died"))[1] or "ok"
                if not was:
                    faults["import_before"] += 1
            else:
                faults["create"] += 1
        elif kind == "import":
            was = op["m"] in sys.modules
            counters = ids.snapshot()
            _mod, err = observe.try_import(op["m"])
            outcome = err or "ok"
            if not was:
                faults["import_before"] += 1
                _note_first_imports(before_mods, first_import_counter, counters, faults, perturbed_before)
        elif kind == "jump":
            cur = ids.get(op["prefix"], 0)
            if ids.jump(op["prefix"], op["to"]):  # forward only: backward would alias names
                faults["jump"] += 1
                outcome = f"{cur}->{op['to']}"
        elif kind == "create":
            _create(op["kind"], int(op["k"]))
            faults["create"] += 1
        elif kind == "clear_cache":
            clear_cache()
            faults["clear_cache"] += 1
        elif kind == "call":
            mod = sys.modules.get(op["m"])
            if mod is not None:
                res = observe.call_functions(mod, jitter=float(op.get("jitter", 1.0)), seqlen=int(op.get("seqlen", 3)))
                faults["call_before"] += 1
                if op.get("jitter", 1.0) != 1.0:
                    faults["call_nearby_args"] = faults.get("call_nearby_args", 0) + 1
                outcome = core.digest(res)[:12]
        elif kind == "print":
            # library use: the equations of an (imported) module are printed with the three printers;
            # a printer may legitimately raise for shapes it does not support, the caller catches it
            mod, _err = observe.try_import(op["m"])
            if mod is not None:
                import sympy as sp  # pylint: disable=import-outside-toplevel
                from symplyphysics import print_expression  # pylint: disable=import-outside-toplevel
                from symplyphysics.docs.printer_code import code_str  # pylint: disable=import-outside-toplevel
                from symplyphysics.docs.printer_latex import latex_str  # pylint: disable=import-outside-toplevel
                raised = 0
                for attr in sorted(vars(mod)):
                    v_ = vars(mod)[attr]
                    if attr.startswith("_") or not isinstance(v_, sp.core.relational.Relational):
                        continue
                    for pr in (code_str, latex_str, print_expression):
                        try:
                            pr(v_)
                        except Exception:  # pylint: disable=broad-except
                            raised += 1
                faults["printed_before"] = faults.get("printed_before", 0) + 1
                if raised:
                    faults["printer_raised"] = faults.get("printer_raised", 0) + raised
                outcome = str(raised)
                if not global_parameters.evaluate and "print" not in flag_events:
                    # whatever is imported or computed next would be built unevaluated
                    flag_events["print"] = f"global_parameters.evaluate is False right after printing the equations of {op['m']} ({raised} printer call(s) raised and were caught)"
        elif kind == "docs_page":
            # library use before: the documentation page of a module is generated first (the generator
            # re-executes the module's source with evaluation switched off around documented members)
            outcome = _docs_page(op["m"])
            faults["docs_page_before"] = faults.get("docs_page_before", 0) + 1
            if not global_parameters.evaluate and "docs_page" not in flag_events:
                flag_events["docs_page"] = f"global_parameters.evaluate is False after generating the documentation page of {op['m']} ({outcome})"
        elif kind == "failed_docs_page":
            # the documentation page of a law whose source raises half-way; the caller catches it
            for _ in range(int(op.get("repeat", 1))):
                outcome = observe.failed_docs_page(op.get("m") or "symplyphysics.laws.dynamics.acceleration_is_force_over_mass")
            # an aborted page leaves the flag off; the user resets it by hand, directly or with the library's call
            if op.get("recover") == "api":
                from symplyphysics.core.processors import reset_sympy_evaluation  # pylint: disable=import-outside-toplevel
                reset_sympy_evaluation()
                faults["recovered_by_api"] = faults.get("recovered_by_api", 0) + 1
                if not global_parameters.evaluate and "recover" not in flag_events:
                    flag_events["recover"] = (f"reset_sympy_evaluation() left evaluation off after {op.get('repeat', 1)} documentation page(s) "
                                              f"that failed inside an evaluation-disabled window ({outcome})")
            global_parameters.evaluate = True
            faults["failed_docs_page"] = faults.get("failed_docs_page", 0) + 1
        elif kind == "churn_dims":
            # many temporary quantities and dimension expressions are created, printed, converted and dropped
            outcome = observe.churn_dimensions(int(op.get("k", 100)))
            faults["churn_dims"] = faults.get("churn_dims", 0) + 1
            if outcome.startswith("WRONG") and "churn" not in flag_events:
                flag_events["churn"] = outcome  # an absolute failure of the library inside a history op
        elif kind == "prepare_args":
            mod, _err = observe.try_import(op["m"])
            if mod is not None:
                prepared[op["m"]] = observe.prepare_arguments(mod)
                faults["args_created_early"] = faults.get("args_created_early", 0) + 1
        elif kind == "observe":
            m = op["m"]
            counters = ids.snapshot()
            dep_first = m in sys.modules
            o = observe.observe(m, with_calls=op.get("calls", True), prepared=prepared.get(m) if op.get("use_prepared") else None, conditioning=bool(op.get("conditioning")))
            _note_first_imports(before_mods, first_import_counter, counters, faults, perturbed_before)
            if op.get("tests") and o.get("import") == "ok":
                o["tests"] = observe.run_repo_tests(m, core.REPO)
            o["dep_first"] = dep_first
            o["counters_before"] = {p: counters.get(p, 0) for p in PREFIXES}
            obs[m] = o
            outcome = core.digest({k: v for k, v in o.items() if k not in ("counters_before",)})[:16]
            c = first_import_counter.get(m, counters).get("SYM", 0)
            states.append(f"{m}|{str(c)[0]}x{len(str(c))}|{int(dep_first)}")
            if dep_first:
                probes["module imported as a dependency (or earlier) before being observed"] = 1
            if faults["clear_cache"]:
                probes["cache cleared before observation"] = 1
            if str(c)[0] == "1" and len(str(c)) >= 4:
                probes["module's own names start with SYM1xxx (sort before the shared symbols)"] = 1
            if any(str(c + k)[0] != str(c)[0] or len(str(c + k)) != len(str(c)) for k in range(1, 12)):
                probes["digit boundary within the next 12 SYM names at first import"] = 1
        else:
            raise ValueError(kind)
        events.append([step, kind, op.get("m") or op.get("prefix") or op.get("kind") or "", outcome])
    flag_ok = bool(global_parameters.evaluate)
    from .c14_vectors import _cache_really_off  # pylint: disable=import-outside-toplevel
    if _cache_really_off():
        faults["sympy_cache_off_run"] = 1
    fired = faults["jump"] + faults["clear_cache"] + faults["create"] + faults["import_before"] + faults["call_before"]
    return {
        "events": events,
        "digest": core.digest(events),
        "obs": obs,
        "obs_digest": core.digest(obs),
        "faults": faults,
        "probes": probes,
        "steps": steps,
        "states": states,
        "nontrivial": fired > 0 and bool(obs),
        "flag_default": flag_ok,
        "flag_events": flag_events,
        "inconclusive": [],
        "counters_end": {p: ids.get(p, 0) for p in PREFIXES},
    }


def _note_first_imports(before_mods, first_import_counter, counters, faults, perturbed_before) -> None:
    import sys  # pylint: disable=import-outside-toplevel
    for name in list(sys.modules):
        if name not in before_mods and name.startswith("symplyphysics.") and name not in first_import_counter:
            first_import_counter[name] = counters
    _ = (faults, perturbed_before)


# ============================================================================ judge (driver side)


def _num_close(a: float, b: float, rel: float) -> bool:
    if a != a and b != b:
        return True
    if a in (float("inf"), float("-inf")) or b in (float("inf"), float("-inf")):
        return a == b
    return abs(a - b) <= rel * max(abs(a), abs(b), 1e-300)


def _fp_close(x: str, y: str) -> bool:
    if x == y:
        return True
    if x[:2] != y[:2]:
        return False

    def parse(s):
        out = []
        for part in s[2:].split(","):
            try:
                out.append(complex(part.replace("j", "j")))
            except ValueError:
                return None
        return out

    px, py = parse(x), parse(y)
    if px is None or py is None or len(px) != len(py):
        return False
    return all(_num_close(a.real, b.real, REL_EQ) and _num_close(a.imag, b.imag, REL_EQ) or abs(a - b) <= REL_EQ * max(abs(a), abs(b)) for a, b in zip(px, py))


def _outcome_close(a, b) -> bool:
    if type(a) is not type(b):
        return False
    if isinstance(a, list):
        if len(a) != len(b):
            return False
        if a and a[0] in ("q", "f") and len(a) == 4:
            if a[0] != b[0] or a[3] != b[3]:
                return False
            za, zb = complex(a[1], a[2]), complex(b[1], b[2])
            if za != za or zb != zb:
                return (za != za) == (zb != zb)
            return (_num_close(a[1], b[1], REL_CALL) and _num_close(a[2], b[2], REL_CALL)) or abs(za - zb) <= REL_CALL * max(abs(za), abs(zb))
        return all(_outcome_close(x, y) for x, y in zip(a, b))
    return a == b


def compare(modname: str, canon: dict, got: dict) -> tuple[list[dict], list[str], list[str]]:
    """Returns (violations, inconclusive, suspects)."""
    vio, inc, sus = [], [], []

    def v(oracle, subject, detail):
        vio.append({"oracle": oracle, "subject": subject, "detail": detail, "cls": f"C03|{oracle}|{subject}"})

    if got.get("import") != "ok":
        v("import", modname, f"import failed under this history: {got.get('import')}" + ("" if canon.get("import") == "ok" else f" (canonical history fails too: {canon.get('import')})"))
        return vio, inc, sus
    if canon.get("import") != "ok":
        # imports after this history but not canonically: the absolute clause is violated by the canonical history
        v("import", modname, f"import fails under the canonical history: {canon.get('import')}")
        return vio, inc, sus
    ce, ge = canon.get("equations", {}), got.get("equations", {})
    if sorted(ce) != sorted(ge):
        v("equation", modname + ".<set>", f"published equations differ: {sorted(ce)} vs {sorted(ge)}")
    for name in sorted(set(ce) & set(ge)):
        a, b = ce[name], ge[name]
        if "timeout" in (a[0], b[0]):
            inc.append("equation-timeout")
            continue
        if a[0] == "num" and b[0] == "num":
            if a[1] != b[1] or len(a) != len(b) or not all(_fp_close(x, y) for x, y in zip(a[2:], b[2:])):
                v("equation", f"{modname}.{name}", f"meaning differs: canonical {a[1:]} vs {b[1:]}")
        elif a != b:
            sus.append(f"{modname}.{name}")
    if canon.get("symbols") != got.get("symbols"):
        cs, gs = canon.get("symbols", {}), got.get("symbols", {})
        diff = sorted(k for k in set(cs) | set(gs) if cs.get(k) != gs.get(k))
        v("symbol", f"{modname}.{diff[0] if diff else '?'}", f"symbol metadata differs for {diff[:5]}: {[cs.get(k) for k in diff[:2]]} vs {[gs.get(k) for k in diff[:2]]}")
    cc, gc = canon.get("calls"), got.get("calls")
    if cc is not None and gc is not None:
        for f in sorted(cc):
            a, b = cc[f], gc.get(f)
            if a[0] != "ret":
                continue  # the statement speaks about returned values only
            if "ill-conditioned" in a:
                inc.append("call-ill-conditioned")
                continue  # its float value is rounding noise at these arguments (see observe.call_functions)
            if b is None:
                v("call", f"{modname}.{f}", "function disappeared")
            elif b[0] == "timeout":
                inc.append("call-timeout")
            elif b[0] != "ret":
                v("call", f"{modname}.{f}", f"returned {a[1]} canonically but {b} under this history")
            elif not _outcome_close(a[1], b[1]):
                v("call", f"{modname}.{f}", f"returned {a[1]} canonically but {b[1]} under this history")
    ct, gt = canon.get("tests"), got.get("tests")
    if ct and gt is not None:
        for tid in sorted(ct):
            if ct[tid] != "passed":
                continue
            if gt.get(tid) in ("timeout", None) or "timeout" in gt.values():
                inc.append("test-timeout")
            elif gt.get(tid) != "passed":
                v("test", f"{modname}::{tid}", f"the repo's own test {tid} passes under the canonical history but is {gt.get(tid)} under this one")
    return vio, inc, sus


def prepare(pool, tier, seed, stats):
    ctx = {"canon": {}, "suspects": set(), "inc": 0}
    mods = modules()
    core.log(f"canonical observations: {len(mods)} modules in env {ENV0}")
    ctx["tests"] = tier == "thorough"
    jobs = [canonical_job(m, ENV0, tests=ctx["tests"]) for m in mods]
    ress = pool.run(jobs)
    table = {}
    n_ok = 0
    for m, r in zip(mods, ress):
        if r.get("status") == "ok":
            table[m] = r["result"]["obs"][m]
            n_ok += table[m].get("import") == "ok"
        else:
            table[m] = {"import": "inconclusive:" + str(r.get("status"))}
    ctx["canon"][core.env_key(ENV0)] = table
    ctx["prejudge"] = list(zip(jobs, ress))
    n_eq = sum(len(o.get("equations", {})) for o in table.values())
    n_num = sum(1 for o in table.values() for e in o.get("equations", {}).values() if e[0] == "num")
    n_calls = sum(1 for o in table.values() for c in (o.get("calls") or {}).values() if c[0] == "ret")
    ill = sorted(f"{m}.{f}" for m, o in table.items() for f, c in (o.get("calls") or {}).items() if "ill-conditioned" in c)
    n_funcs = sum(len(o.get("calls") or {}) for o in table.values())
    ctx["canon_stats"] = {"modules": len(mods), "import_ok": n_ok, "equations": n_eq, "equations_numeric": n_num, "functions": n_funcs, "functions_returning": n_calls, "ill_conditioned_at_chosen_arguments": ill}
    core.log(f"  {ctx['canon_stats']}")
    return ctx


def before_judge(pool, jobs, ress, ctx) -> None:
    """Computes the canonical observations still missing for the (env, module) pairs of a batch."""
    need = []
    for job, res in zip(jobs, ress):
        if res.get("status") != "ok":
            continue
        ek = core.env_key(job["env"])
        table = ctx["canon"].setdefault(ek, {})
        for m in (res["result"].get("obs") or {}):
            if m not in table and (ek, m) not in [(core.env_key(j["env"]), j["ops"][0]["m"]) for j in need]:
                need.append(canonical_job(m, job["env"], tests=bool(ctx.get("tests"))))
    if need:
        out = pool.run(need)
        for j, r in zip(need, out):
            m = j["ops"][0]["m"]
            table = ctx["canon"][core.env_key(j["env"])]
            table[m] = r["result"]["obs"][m] if r.get("status") == "ok" else {"import": "inconclusive:" + str(r.get("status"))}


def judge(job: dict, res: dict, ctx) -> list[dict]:
    if res.get("status") != "ok":
        return []
    out = []
    ek = core.env_key(job["env"])
    table = (ctx or {}).get("canon", {}).get(ek, {})
    r = res["result"]
    for m, got in (r.get("obs") or {}).items():
        canon = table.get(m)
        if canon is None or str(canon.get("import", "")).startswith("inconclusive"):
            continue
        is_canon_job = str(job.get("run", "")).startswith("canon:")
        vio, inc, sus = compare(m, canon, got)
        if is_canon_job:
            vio = [x for x in vio if x["oracle"] == "import"]
        out.extend(vio)
        if ctx is not None:
            ctx["suspects"].update(sus)
            ctx["inc"] += len(inc)
    for kind_, detail_ in (r.get("flag_events") or {}).items():
        if kind_ == "churn":
            out.append({"oracle": "history-op", "subject": "quantity-api", "detail": detail_, "cls": "C03|history-op|quantity-api"})
            continue
        out.append({"oracle": "flag", "subject": f"evaluate-after-{kind_}", "detail": detail_, "cls": f"C03|flag|evaluate-after-{kind_}"})
    if not r.get("flag_default", True):
        out.append({"oracle": "flag", "subject": "evaluate", "detail": "global_parameters.evaluate is not default after the history", "cls": "C03|flag|evaluate"})
    return out


def prepare_replay(pool, job):
    ctx = {"canon": {}, "suspects": set(), "inc": 0}
    mods = sorted({op["m"] for op in job["ops"] if op["op"] == "observe"})
    ress = pool.run([canonical_job(m, job["env"]) for m in mods])
    table = ctx["canon"].setdefault(core.env_key(job["env"]), {})
    for m, r in zip(mods, ress):
        table[m] = r["result"]["obs"][m] if r.get("status") == "ok" else {"import": "inconclusive"}
    return ctx


def simplify(job: dict) -> list[dict]:
    out = []
    ops = job["ops"]
    for i, op in enumerate(ops):
        if op["op"] == "jump":
            for to in (9, 99, 996, 999, 1004, 9999):
                if to < op["to"]:
                    out.append(dict(job, ops=ops[:i] + [dict(op, to=to)] + ops[i + 1:]))
        if op["op"] == "create" and op["k"] > 1:
            out.append(dict(job, ops=ops[:i] + [dict(op, k=1)] + ops[i + 1:]))
        if op["op"] == "observe" and op.get("calls", True):
            out.append(dict(job, ops=ops[:i] + [dict(op, calls=False)] + ops[i + 1:]))
    if job["env"] != ENV0:
        out.append(dict(job, env=ENV0))
    return out


def finding_key(job: dict, violation: dict) -> str:
    return violation["cls"]


def extra_coverage(stats, ctx) -> dict:
    return {
        "programs": len(modules()),
        "canonical": (ctx or {}).get("canon_stats"),
        "suspect_structural_differences": sorted((ctx or {}).get("suspects", []))[:50],
        "inconclusive_comparisons": (ctx or {}).get("inc", 0),
        "zygote_configurations": ENVS,
    }
