"""C09 -- distinct symbols never alias; clones keep dimension and assumptions.

System: the creation API against the process-global name counters, SymPy's cache and the SI
registry. A run is a sequence of creation ops interleaved with perturbations (forward
counter jumps to digit boundaries, real bulk creation, cache eviction, creation while the
evaluate flag is off, import of a catalogue module). Reference model: a list of abstract
records with the *expected* names, dimension, assumptions, scale factor.
"""
from __future__ import annotations

import re

from . import core

PROP = "C09"
BATCH = 256
BUDGET_S = {"quick": 60, "thorough": 1800}
MAX_RUNS = {"quick": 4000, "thorough": 10**9}
MIN_RUNS = {"quick": 768, "thorough": 0}  # the quick tier explores the same runs on a loaded machine (the budget only stops it beyond these)
MIN_OPS = 1

NAMES = [None, "m", "r", "T", "x_0", "SYM7", "FUN3", "QTY1", "m", "Symbol", "beta", "Abs", "m1", "m"]  # "m1" vs the 11th "m": names made of a stem and digits
LATEX = [None, None, "\\mu", "r_{1}"]
SUBS = [None, "0", "max", "1"]
DIMS = ["length", "mass", "time", "one", "velocity", "temperature"]
ASSUME = [{}, {"positive": True}, {"real": True}, {"integer": True, "nonnegative": True}, {"commutative": False}, {"zero": False}, {"real": False}, {"negative": True}]
UNITS = ["meter", "second", "kilogram", "kelvin"]
INTERNAL = re.compile(r"(?<![A-Za-z0-9_])(SYM|FUN|QTY|SYS|VEC)\d+")

RULE = ("seeded sequences of 5-60 ops: creations of Symbol/IndexedSymbol/Function/Quantity/CoordinateSystem/coordinates_transform/"
        "VectorSymbol/VectorFunction and clones, with display names drawn from a small colliding pool (incl. names that look like internal "
        "ones), interleaved with perturbations (forward counter jumps to 10^d-j, bulk creation, cache eviction, evaluate flag off, catalogue "
        "import). A run is non-trivial if at least one display-name collision AND at least one perturbation occurred; distinct = distinct "
        "event-log digests")
STATE_MEASURE = "distinct (digit-class vector of the counters at the end, multiset of display names, number of realised display-name collisions) triples"
COMPONENTS = {
    "real": ["symplyphysics creation API and clone helpers", "id_generator counters", "SymPy symbol cache", "SI registry", "print_expression / code_str"],
    "stubbed": ["bulk creation replaced by forward counter jumps in part of the runs"],
}
ASSUMPTIONS = [
    "reference model of expected names/assumptions is 60 lines (expected assumptions come from a plain sympy.Symbol with the same kwargs)",
    "independence is judged numerically under a per-object assignment (each live object gets a distinct value) and by solve() on sums with distinct prime coefficients",
    "IndexedSymbol(<existing sympy Symbol>) (SymPy's internal re-creation path) is not a creation and is excluded",
]

# ============================================================================ generator


def _boundary(rng):
    return max(1, rng.choice([1, 1, 2, 5, 9]) * 10**rng.choice([1, 2, 3, 3, 4, 5]) - rng.choice([0, 1, 2, 3, 5, 8]))


def generate(seed: int, run: int, tier: str) -> dict:
    rng = core.rng_for(seed, PROP, run, "gen")
    n = rng.choice([5, 8, 12, 20, 30, 40]) if tier == "quick" else rng.choice([5, 8, 12, 20, 30, 45, 60])
    w_create = {"symbol": 6, "indexed": 2, "function": 3, "quantity": 3, "quantity_of": 1, "wrapper": 2, "xcoordsys": 1, "coordsys": 1, "transform": 1, "rotate": 1, "vecsymbol": 1, "vecfunction": 1,
                "clone_symbol": 5, "clone_function": 3, "clone_indexed": 2}
    # swarm: drop some kinds entirely, emphasise others
    for k in list(w_create):
        r = rng.random()
        if r < 0.25:
            w_create[k] = 0
        elif r > 0.85:
            w_create[k] *= 4
    if not any(w_create[k] for k in ("symbol", "indexed", "quantity", "function")):
        w_create["symbol"] = 6
    p_perturb = rng.choice([0.0, 0.1, 0.25, 0.4])
    p_thread = rng.choice([0.0, 0.0, 0.15, 0.5])
    name_pool = rng.sample(NAMES, rng.choice([2, 3, 5, len(NAMES)]))
    ops = []
    for _ in range(n):
        if rng.random() < p_perturb:
            k = rng.choice(["jump", "jump", "bulk", "clear_cache", "flag_off", "flag_on", "import", "churn", "drop", "failed_docs_page"])
            if rng.random() < 0.15:
                ops.append({"op": "keep_rebuilt", "src": rng.randrange(100)})
                continue
            if k == "failed_docs_page":
                ops.append({"op": "failed_docs_page", "m": rng.choice(["symplyphysics.laws.dynamics.acceleration_is_force_over_mass", "symplyphysics.definitions.density_from_mass_volume", "symplyphysics.laws.kinematics.position_via_constant_acceleration_and_time", "symplyphysics.laws.thermodynamics.gas_pressure_change_from_temperature", "symplyphysics.laws.optics.lens_focus_from_object_and_image"])})
                continue
            if k == "churn":
                ops.append({"op": "churn", "k": rng.choice([20, 60, 150, 300]), "name": rng.choice(name_pool), "every": rng.choice([1, 3, 10])})
                continue
            if k == "drop":
                ops.append({"op": "drop", "frac": rng.choice([0.3, 0.6, 1.0]), "salt": rng.randrange(1000)})
                continue
            if k == "jump":
                ops.append({"op": "jump", "prefix": rng.choice(["SYM", "SYM", "FUN", "QTY", "SYS", "VEC"]), "to": _boundary(rng)})
            elif k == "bulk":
                ops.append({"op": "bulk", "kind": rng.choice(["symbol", "function", "quantity"]), "k": rng.choice([1, 5, 9, 20, 20, 300, 9000])})
            elif k == "import":
                ops.append({"op": "import", "m": rng.choice(["symplyphysics.laws.dynamics.acceleration_is_force_over_mass", "symplyphysics.definitions.density_from_mass_volume", "symplyphysics.laws.kinematics.position_via_constant_acceleration_and_time", "symplyphysics.laws.thermodynamics.gas_pressure_change_from_temperature"])})
            else:
                ops.append({"op": k})
            continue
        kind = rng.choices(list(w_create), list(w_create.values()))[0]
        op = {"op": kind}
        if kind in ("symbol", "indexed", "function", "vecsymbol", "vecfunction"):
            op.update(name=rng.choice(name_pool), latex=rng.choice(LATEX), dim=rng.choice(DIMS))
            if kind in ("symbol", "indexed"):
                op["assume"] = rng.choice(ASSUME)
                op["kw"] = rng.random() < 0.3  # the dimension is passed by keyword (`dimension=...`)
            if kind == "function":
                op["nargs"] = rng.choice([None, 1, 2])
                if op["nargs"] and rng.random() < 0.5:
                    # declared arguments are earlier library objects (symbols or unapplied functions)
                    op["arg_refs"] = [rng.randrange(100) for _ in range(op["nargs"])]
        elif kind == "quantity":
            op.update(value=rng.choice([1, 2, 3, 5, -4, 0.5, 1000]), unit=rng.choice(UNITS), name=rng.choice(name_pool), latex=rng.choice(LATEX), prefix=rng.choice([None, None, "kilo", "milli"]))
            op["override"] = rng.random() < 0.25  # a bare number with `dimension=` given explicitly
        elif kind == "quantity_of":
            op.update(src=rng.randrange(100), name=rng.choice(name_pool), latex=rng.choice(LATEX))
        elif kind == "xcoordsys":
            op["type"] = rng.choice([0, 1, 2])
        elif kind == "wrapper":
            op.update(src=rng.randrange(100), cls=rng.choice(["Average", "FiniteDifference", "ExactDifferential", "InexactDifferential"]))
        elif kind == "rotate":
            op.update(src=rng.randrange(100), angle=rng.choice([1, 1, 2]), axis=rng.choice([0, 0, 1, 2]))
        elif kind == "coordsys":
            op["type"] = rng.choice([0, 1, 2])
        elif kind == "transform":
            op.update(src=rng.randrange(100), type=rng.choice([0, 1, 2]))
        else:  # clones
            op.update(src=rng.randrange(100), name=rng.choice([None, None] + name_pool), latex=rng.choice(LATEX), subscript=rng.choice(SUBS))
            if kind != "clone_function":
                op["assume"] = rng.choice([None, None] + ASSUME[1:])
            if kind == "clone_function":
                op["nargs"] = rng.choice([None, 1])
        if p_thread and rng.random() < p_thread:
            op["thread"] = True  # this creation happens in another (joined) thread of the process
        ops.append(op)
    env = {"hashseed": rng.choice([0, 1, 7]), "cache": rng.choice([1000, 1000, 20])}
    if rng.random() < 0.12:
        # environment fault: SymPy's cache switched off for the whole process (SYMPY_USE_CACHE=no)
        env = {"hashseed": env["hashseed"], "cache": 1000, "environ": {"SYMPY_USE_CACHE": "no"}}
    return {"prop": PROP, "seed": seed, "run": run, "env": env, "timeout": 180, "ops": ops, "final": True}


def systematic_jobs(tier: str, seed: int, ctx) -> list[dict]:
    """Display-name ladders, independent of the time budget (and so of the machine's load): for a stem
    and a kind, 12 (thorough: also 101) objects with the same display name, then objects displayed as
    stem+digits ("m1", "m10", "m11", "m12") and as the stem's prefix -- every generated name made of
    the display name and a number must still be unique -- followed by clones with and without a
    subscript, one cache eviction and one digit-boundary jump. All step and final oracles run."""
    jobs = []
    ladders = [12] if tier == "quick" else [12, 101]
    for li, length in enumerate(ladders):
        for ki, kind in enumerate(["symbol", "function", "indexed", "quantity", "vecsymbol"]):
            for si, stem in enumerate(["m", "x_0", "SYM"]):
                for ai, assume in enumerate([{}, {"positive": True}] if kind in ("symbol", "indexed") else [{}]):
                    def mk(name, kind=kind, assume=assume):
                        op = {"op": kind, "name": name, "latex": None}
                        if kind == "quantity":
                            op.update(value=2, unit="meter", prefix=None, override=False)
                        else:
                            op["dim"] = "mass"
                        if kind in ("symbol", "indexed"):
                            op.update(assume=assume, kw=False)
                        if kind == "function":
                            op["nargs"] = None
                        return op
                    ops = [mk(stem + d) for d in ("1", "10", "11")]
                    ops += [mk(stem) for _ in range(length)]
                    ops += [mk(stem + d) for d in ("1", "12", str(length), str(length + 1))]
                    ops.append({"op": "clear_cache"})
                    ops += [mk(stem), mk(stem[:-1] or stem)]
                    if kind in ("symbol", "function", "indexed"):
                        ck = {"symbol": "clone_symbol", "function": "clone_function", "indexed": "clone_indexed"}[kind]
                        for src, sub in ((3, None), (3, "1"), (0, "1"), (4, "0")):
                            c = {"op": ck, "src": src, "name": None, "latex": None, "subscript": sub}
                            if ck == "clone_function":
                                c["nargs"] = None
                            else:
                                c["assume"] = None
                            ops.append(c)
                    ops.append({"op": "jump", "prefix": {"function": "FUN", "quantity": "QTY", "vecsymbol": "VEC"}.get(kind, "SYM"), "to": 10**(2 + li) - 2})
                    ops += [mk(stem) for _ in range(4)]
                    jobs.append({"prop": PROP, "seed": seed, "run": f"sys:ladder:{length}:{kind}:{si}:{ai}", "env": {"hashseed": 0, "cache": 1000}, "timeout": 180, "ops": ops, "final": True})
    return jobs


# ============================================================================ child side


def zygote_init() -> None:
    import symplyphysics.docs.printer_code  # pylint: disable=import-outside-toplevel,unused-import
    import symplyphysics.core.experimental.vectors  # pylint: disable=import-outside-toplevel,unused-import


class Violation(Exception):

    def __init__(self, oracle, subject, detail):
        super().__init__(detail)
        self.v = {"oracle": oracle, "subject": subject, "detail": detail, "cls": f"C09|{oracle}|{subject}"}


def _dim(name):
    from sympy.physics import units  # pylint: disable=import-outside-toplevel
    from symplyphysics import dimensionless  # pylint: disable=import-outside-toplevel
    return dimensionless if name == "one" else getattr(units, name)


def _same_dim(a, b) -> bool:
    from sympy.physics.units.systems.si import dimsys_SI  # pylint: disable=import-outside-toplevel
    try:
        return bool(dimsys_SI.equivalent_dims(a, b))
    except Exception:  # pylint: disable=broad-except
        return False


def _expected_assumptions(kw: dict) -> dict:
    import sympy as sp  # pylint: disable=import-outside-toplevel
    return dict(sp.Symbol("reference_model_symbol", **kw).assumptions0)


def _sub(code, latex, subscript):
    if not subscript:
        return code, latex
    return f"{code}_{subscript}", f"{latex}_{{{subscript}}}"


class Model:
    """Reference model: one record per creation."""

    def __init__(self):
        self.recs: list[dict] = []

    def add(self, kind, obj, display, latex, dim, assumptions=None, scale=None, src=None, defaulted=False, extra=None):
        if kind not in ("coordsys", "wrapper", "xcoordsys"):
            # display names that legitimately look like generated names (chosen so, or defaulted)
            self.allowed_tokens = getattr(self, "allowed_tokens", set())
            for m in INTERNAL.finditer(str(getattr(obj, "display_name", ""))):
                self.allowed_tokens.add(m.group(0))
        self.serial = getattr(self, "serial", 0) + 1
        self.recs.append({"serial": self.serial, "kind": kind, "obj": obj, "display": display, "latex": latex, "dim": dim, "assume": assumptions, "scale": scale, "src": src, "defaulted": defaulted, "extra": extra})

    def symbol_like(self):
        return [r for r in self.recs if r["kind"] in ("symbol", "indexed")]


def _internal_name(rec) -> str:
    o = rec["obj"]
    if rec["kind"] == "wrapper":
        return f"{o.name}#{rec['serial']}"  # named after the display form by design (no real address in the log)
    if rec["kind"] in ("function", "vecfunction"):
        return str(o.name)
    if rec["kind"] == "indexed":
        return str(o.name)
    if rec["kind"] == "coordsys":
        return str(o.coord_system._name)  # pylint: disable=protected-access
    if rec["kind"] == "xcoordsys":
        return "xcs#" + str(rec["serial"])
    return str(o.name)


def _check_record(rec, where: str) -> None:
    """I2/I3: a record reads back what the model expects (called right after creation and
    again for every earlier record after every later step)."""
    try:
        _check_record_inner(rec, where)
    except Violation as v:
        # report each (record, aspect) once, then keep going: a listed finding must not hide
        # whatever else the run would have shown
        aspect = v.v["subject"]
        if aspect in rec.setdefault("flagged", set()):
            return
        rec["flagged"].add(aspect)
        raise


def _check_record_inner(rec, where: str) -> None:
    o = rec["obj"]
    k = rec["kind"]
    if k in ("coordsys", "xcoordsys"):
        return
    if k == "wrapper":
        flagged = rec.get("flagged", ())
        if o.factor is not rec["extra"]["factor"] and "wrapper:factor" not in flagged:
            raise Violation(where, "wrapper:factor", f"a {type(o).__name__} wrapper no longer wraps the symbol it was created around (now {o.factor!r}: another wrapper whose argument prints alike took it over)")
        if o.dimension != rec["dim"] and not _same_dim(o.dimension, rec["dim"]) and "wrapper:dimension" not in flagged:
            raise Violation(where, "wrapper:dimension", f"a {type(o).__name__} wrapper reads dimension {o.dimension}, its argument has {rec['dim']}")
        return
    disp = rec["display"] if not rec["defaulted"] else rec["extra"]["default_display"](o)
    latex = rec["latex"] if rec["latex"] is not None else disp
    flagged = rec.get("flagged", ())
    got_d = str(o.display_name)
    if got_d != disp and f"{k}:display_name" not in flagged:
        raise Violation(where, f"{k}:display_name", f"{k} created as display={rec['display']!r} reads display_name={got_d!r}, expected {disp!r}")
    got_l = str(o.display_latex) if k != "quantity" else str(o.display_latex)
    if got_l != latex and f"{k}:display_latex" not in flagged:
        raise Violation(where, f"{k}:display_latex", f"{k} reads display_latex={got_l!r}, expected {latex!r}")
    if rec["dim"] is not None and o.dimension != rec["dim"] and not _same_dim(o.dimension, rec["dim"]) and f"{k}:dimension" not in flagged:
        raise Violation(where, f"{k}:dimension", f"{k} {disp!r} reads dimension {o.dimension}, expected {rec['dim']}")
    if rec["assume"] is not None:
        got_a = dict(o.assumptions0)
        if got_a != rec["assume"] and f"{k}:assumptions" not in flagged:
            raise Violation(where, f"{k}:assumptions", f"{k} {disp!r} reads assumptions {sorted(got_a.items())}, expected {sorted(rec['assume'].items())}")
    if k == "indexed" and rec["extra"] and rec["extra"].get("kw") is not None:
        got_a = dict(o.assumptions0)
        exp_a = _expected_assumptions({kk: vv for kk, vv in rec["extra"]["kw"].items()})
        if got_a != exp_a and "indexed:assumptions" not in flagged:
            raise Violation(where, "indexed:assumptions", f"indexed {disp!r} reads assumptions {sorted(got_a.items())}, expected {sorted(exp_a.items())}")
    if k == "function" and rec["src"] is not None and "clone_as_function:assumptions" not in flagged:
        import sympy as sp  # pylint: disable=import-outside-toplevel
        nargs = rec["extra"]["nargs"]
        applied = o(*[sp.Symbol(f"arg{i}") for i in range(nargs or 1)])
        for key in ("positive", "negative", "real", "integer", "nonnegative"):
            if rec["extra"]["src_assume"].get(key) is True and getattr(applied, "is_" + key) is not True:
                raise Violation(where, "clone_as_function:assumptions", f"clone_as_function of a source with {key}=True gives a function whose value has is_{key}={getattr(applied, 'is_' + key)} (no assumptions were passed, so the source's should be kept)")
    if rec["scale"] is not None and rec["dim"] is not None and "quantity:si-dimension" not in flagged:
        from sympy.physics.units.systems.si import SI  # pylint: disable=import-outside-toplevel
        si_dim = SI.get_quantity_dimension(o)
        if si_dim != rec["dim"] and not _same_dim(si_dim, rec["dim"]):
            raise Violation(where, "quantity:si-dimension", f"quantity {disp!r}: the SI registry holds dimension {si_dim} for it, its own attribute and its creation say {rec['dim']}")
    if rec["scale"] is not None:
        import sympy as sp  # pylint: disable=import-outside-toplevel
        sf = complex(sp.N(o.scale_factor))
        if abs(sf - rec["scale"]) > 1e-12 * max(1.0, abs(rec["scale"])) and "quantity:scale_factor" not in flagged:
            raise Violation(where, "quantity:scale_factor", f"quantity {disp!r} reads scale factor {sf}, expected {rec['scale']}")


def _foreign_objects(model: Model):
    """Symbols/functions/quantities that live in symplyphysics modules imported *during this run*
    (by an import op, or by a documentation page that was executed): objects created through the
    API afterwards must not alias them either."""
    import sys  # pylint: disable=import-outside-toplevel
    import sympy as sp  # pylint: disable=import-outside-toplevel
    from sympy.core.function import FunctionClass  # pylint: disable=import-outside-toplevel
    base = getattr(model, "base_modules", None)
    if base is None:
        return []
    out = []
    for name in sorted(set(sys.modules) - base):
        if not name.startswith("symplyphysics."):
            continue
        for attr, v in sorted(vars(sys.modules[name]).items()):
            if hasattr(v, "display_name") and isinstance(v, (sp.Basic, FunctionClass)) and getattr(v, "__module__", None) != "builtins":
                out.append((f"{name}.{attr}", v))
    return out


def _check_distinct(model: Model) -> None:
    """I1: pairwise distinct objects, distinct dict keys, unique internal names per kind."""
    mine_ids = {id(r["obj"]) for r in model.recs}
    mine_names = {}
    for r in model.recs:
        if r["kind"] not in ("coordsys", "xcoordsys"):
            mine_names[_internal_name(r)] = r
    for where, fo in _foreign_objects(model):
        if id(fo) in mine_ids:
            continue
        nm = str(getattr(fo, "name", ""))
        r = mine_names.get(nm)
        if r is not None and r["src"] is None and r["obj"] is not fo:
            raise Violation("alias", "internal-name:library-object", f"a {r['kind']} created through the API got the generated name {nm}, which {where} (imported earlier in this process) already has")
    objs = list(getattr(model, "survivors", []))
    for r in model.recs:
        if r["kind"] == "coordsys":
            cs = r["obj"].coord_system
            objs.extend(list(cs.base_scalars()) + list(cs.base_vectors()))
        elif r["kind"] == "xcoordsys":
            objs.extend(list(r["obj"].base_scalars))
        else:
            objs.append(r["obj"])
    n = len(objs)
    if len({o: 1 for o in objs}) != n or len(set(objs)) != n:
        # find the pair
        for i in range(n):
            for j in range(i):
                if objs[i] == objs[j]:
                    raise Violation("alias", "equal-objects", f"two separately created objects compare equal: {objs[j]!r} == {objs[i]!r} (positions {j}, {i})")
        raise Violation("alias", "hash-collapse", "created objects collapse as dict keys")
    names = [_internal_name(r) for r in model.recs]
    if len(set(names)) != len(names):
        dup = sorted({x for x in names if names.count(x) > 1})
        kinds = sorted({r["kind"] for r in model.recs if _internal_name(r) in dup})
        raise Violation("alias", f"internal-name:{'+'.join(kinds)}", f"generated internal names reused: {dup[:3]}")


def sx_global_index():
    from symplyphysics import global_index  # pylint: disable=import-outside-toplevel
    return global_index


def _final_checks(model: Model) -> list[str]:
    """I4 (independence under subs/diff/solve) and I5 (printing)."""
    import sympy as sp  # pylint: disable=import-outside-toplevel
    from symplyphysics import print_expression  # pylint: disable=import-outside-toplevel
    from symplyphysics.docs.printer_code import code_str  # pylint: disable=import-outside-toplevel
    notes = []
    primes = list(sp.primerange(2, 2000))
    common = sp.Symbol("common_argument", real=True)
    terms = []  # (rec, term expr, prime, value)
    pi = 0
    for r in model.recs:
        o = r["obj"]
        k = r["kind"]
        if k == "symbol":
            ts = [o]
        elif k == "indexed":
            ts = [o[1]]
        elif k == "function":
            nargs = r["extra"]["nargs"]
            ts = [o(*([common] * (nargs or 1)))]
        elif k == "quantity":
            ts = [o]
        elif k == "coordsys":
            ts = list(o.coord_system.base_scalars())
        elif k == "xcoordsys":
            ts = list(o.base_scalars)
        else:
            continue  # vector objects are checked for distinctness only
        for t in ts:
            # quantities are constants, not free symbols: SymPy may (rightly) relate two quantities of
            # one dimension through their values, so they are valued by their scale factor
            v = r["extra"]["value"] if k == "quantity" else sp.Rational(pi + 3, 7) + pi * pi
            terms.append((r, t, primes[pi], v))
            pi += 1
    terms = terms[:28]
    if len(terms) < 2:
        return notes
    E = sp.Add(*[p * t for _, t, p, _ in terms])
    values = {t: v for _, t, _, v in terms}
    if len(values) != len(terms):
        raise Violation("alias", "equal-terms", "terms built from separately created objects collapse as dict keys")
    total = sum(p * v for _, _, p, v in terms)

    def num(e):
        val = e.xreplace(values)
        if val.has(common):
            val = val.subs(common, sp.Rational(5, 3))
        return val

    got_total = num(E)
    if got_total != total:
        raise Violation("independence", "sum", f"sum of {len(terms)} distinct terms evaluates to {got_total}, expected {total}: some terms were merged (E = {E})")
    # subs / diff on every term; solve on the plain symbols (bounded)
    solved = 0
    sym_terms = [t for r, t, _, _ in terms if r["kind"] == "symbol"]
    pos_of = {id(t): i for i, t in enumerate(sym_terms)}
    n_sym = len(sym_terms)
    solve_at = {0, n_sym - 1, n_sym // 2, n_sym // 3, (2 * n_sym) // 3}
    solve_budget = 5 if all(t.is_commutative for _, t, _, _ in terms) else 0  # solve() does not handle non-commutative unknowns/coefficients
    for r, t, p, v in terms:
        e0 = E.subs(t, 0)
        if num(e0) != total - p * v:
            raise Violation("independence", f"subs:{r['kind']}", f"substituting 0 for one {r['kind']} ({r['display']!r}) changed the sum by {total - num(e0)}, expected {p * v}: another object was affected")
        if r["kind"] in ("symbol",):
            d = E.diff(t)
            if d != p:
                raise Violation("independence", "diff:symbol", f"dE/d({r['display']!r}) = {d}, expected {p}")
            if solve_budget and (pos_of[id(t)] in solve_at):
                solve_budget -= 1
                solved += 1
                # right-hand side: a plain symbol without assumptions (a number could make the equation
                # unsatisfiable under the unknown's assumptions, e.g. two negative symbols summing to 1,
                # and SymPy then rightly returns no solution -- that is not aliasing)
                rhs = sp.Symbol("rhs_any")
                sol = sp.solve(sp.Eq(E, rhs), t, dict=True, check=False)
                if len(sol) != 1 or sol[0][t].has(t):
                    raise Violation("independence", "solve:symbol", f"solve for {r['display']!r} returned {sol}")
                back = num(E.subs(t, sol[0][t])).subs(rhs, sp.Rational(17, 3)) - sp.Rational(17, 3)
                if back != 0 and not (back.is_number and abs(sp.N(back)) <= 1e-9 * max(1, abs(sp.N(total)))):
                    raise Violation("independence", "solve:symbol", f"solution for {r['display']!r} does not satisfy the equation (residual {back})")
    # I5 printing
    allowed = set(getattr(model, "allowed_tokens", ()))  # incl. objects the model has since dropped
    for r in model.recs:
        if r["kind"] in ("coordsys", "wrapper", "xcoordsys"):
            continue
        d = str(r["obj"].display_name)
        for m in INTERNAL.finditer(d):
            allowed.add(m.group(0))
    for printer_name, printer in (("print_expression", print_expression), ("code_str", code_str)):
        # term by term: the pretty printer wraps long lines at 80 columns
        text = " ;; ".join(printer(p * t) for _, t, p, _ in terms)
        for m in INTERNAL.finditer(text):
            tok = m.group(0)
            if tok.startswith("SYS"):
                continue  # coordinate systems have no display name; their generated name is their only name
            if tok not in allowed:
                raise Violation("print", printer_name, f"{printer_name} shows generated internal name {tok!r}: {text[:300]!r}")
        for r, t, _p, _v in terms:
            if r["kind"] in ("symbol", "indexed", "function"):
                d = str(r["obj"].display_name)
                if d not in text:
                    raise Violation("print", printer_name, f"{printer_name} does not show display name {d!r} of a {r['kind']}: {text[:300]!r}")
            if r["kind"] == "quantity" and "QTY" not in str(r["obj"].display_name) and str(r["obj"].display_name) not in text:
                raise Violation("print", printer_name, f"{printer_name} does not show display name {r['obj'].display_name!r} of a quantity: {text[:300]!r}")
    # bare objects and containers of them (an IndexedSymbol may be printed without an index)
    for printer_name, printer in (("print_expression", print_expression), ("code_str", code_str)):
        for r in model.recs:
            if r["kind"] not in ("symbol", "indexed", "quantity"):
                continue
            o = r["obj"]
            d = str(o.display_name)
            shapes = [("bare", o)]
            if printer_name == "print_expression":
                shapes += [("list", [o, 1]), ("tuple", (o, 2))]
            for shape_name, shape in shapes:
                try:
                    text = printer(shape)
                except Exception as e:  # pylint: disable=broad-except
                    raise Violation("print", f"{printer_name}:{shape_name}", f"{printer_name} of a {shape_name} {r['kind']} raised {type(e).__name__}: {str(e)[:120]}") from None
                bad = [m.group(0) for m in INTERNAL.finditer(text) if m.group(0) not in allowed]
                if bad:
                    raise Violation("print", f"{printer_name}:{shape_name}:{r['kind']}", f"{printer_name} of a {shape_name} {r['kind']} with display name {d!r} shows generated internal name {bad[0]!r}: {text[:200]!r}")
                if r["kind"] != "quantity" and d not in text:
                    raise Violation("print", f"{printer_name}:{shape_name}:{r['kind']}", f"{printer_name} of a {shape_name} {r['kind']} does not show its display name {d!r}: {text[:200]!r}")
    # Abs of every quantity is its own magnitude (and never another quantity's)
    for r in model.recs:
        if r["kind"] != "quantity":
            continue
        try:
            a = abs(r["obj"])
        except Exception as e:  # pylint: disable=broad-except
            raise Violation("independence", "abs:quantity", f"abs() of quantity {r['display']!r} raised {type(e).__name__}: {str(e)[:120]}") from None
        if hasattr(a, "dimension") and r["dim"] is not None:
            from sympy.physics.units.systems.si import SI  # pylint: disable=import-outside-toplevel
            si_dim = SI.get_quantity_dimension(a)
            if si_dim != r["dim"] and not _same_dim(si_dim, r["dim"]):
                raise Violation("independence", "abs:quantity-dimension", f"abs() of a quantity of dimension {r['dim']} is registered in the SI system with dimension {si_dim}")
        sf = complex(sp.N(getattr(a, "scale_factor", a)))
        want = abs(r["scale"])
        if abs(sf - want) > 1e-9 * max(1.0, want):
            raise Violation("independence", "abs:quantity", f"abs() of the quantity {r['display']!r} with scale factor {r['scale']} has scale factor {sf}, expected {want}: the result belongs to another quantity")
    # wrappers around expressions that contain applied functions and symbols
    from symplyphysics.core.operations.symbolic import Average, FiniteDifference, ExactDifferential  # pylint: disable=import-outside-toplevel
    inner = [t for r, t, _p, _v in terms if r["kind"] in ("function", "symbol")][:4]
    for t in inner:
        for wrap in (Average, FiniteDifference, ExactDifferential):
            try:
                text = code_str(wrap(t) / wrap(common))
            except Exception:  # pylint: disable=broad-except
                continue
            bad = [m.group(0) for m in INTERNAL.finditer(text) if m.group(0) not in allowed]
            if bad:
                raise Violation("print", f"code_str:{wrap.__name__}", f"code_str of {wrap.__name__} around an expression with display names shows generated internal name {bad[0]!r}: {text[:200]!r}")
    from symplyphysics.docs.printer_latex import latex_str  # pylint: disable=import-outside-toplevel
    for phase in (0, 1):
        for r in model.recs:
            plain = r["latex"] is None and str(r["display"] or "").isalpha() and len(str(r["display"])) == 1  # e.g. "m": its LaTeX form is itself (longer names may be Greek letters)
            if r["kind"] == "symbol" and (r["latex"] is not None or plain) and r["src"] is None:
                got = latex_str(r["obj"])
                if got != str(r["obj"].display_latex):
                    raise Violation("print", "latex_str:symbol", f"latex_str of a symbol whose LaTeX name is {str(r['obj'].display_latex)!r} gives {got!r}" + (" after functions with declared arguments were printed" if phase else ""))
        if phase == 0:
            for r in model.recs:
                if r["kind"] == "function" and not r["defaulted"] and r["src"] is None and (r["extra"].get("nargs") in (None, 1, 2)):
                    applied_ = r["obj"](*([common] * (r["extra"].get("nargs") or 1)))
                    try:
                        ltx = latex_str(applied_)
                    except Exception as e:  # pylint: disable=broad-except
                        raise Violation("print", "latex_str:applied-function", f"latex_str of the applied function {r['display']!r} raised {type(e).__name__}: {str(e)[:120]}") from None
                    if re.search(r"(SYM|FUN|QTY)_\{\d+\}", ltx) and not INTERNAL.search(str(r["display"])):
                        raise Violation("print", "latex_str:applied-function", f"latex_str of the applied function {r['display']!r} shows a generated internal name: {ltx[:160]!r}")
            for r in model.recs:
                if r["kind"] == "function" and (r.get("extra") or {}).get("declared"):
                    try:
                        latex_str(r["obj"])
                    except Exception:  # pylint: disable=broad-except
                        pass
    # indexed sums and products over indexed symbols, with and without an applied function inside
    gi = sx_global_index()
    idx_terms = [r for r in model.recs if r["kind"] == "indexed"][:3]
    fun_terms = [r for r in model.recs if r["kind"] == "function" and (r["extra"].get("nargs") in (None, 1))][:2]
    from symplyphysics import IndexedSum, IndexedProduct  # pylint: disable=import-outside-toplevel
    for ri in idx_terms:
        inner_exprs = [ri["obj"][gi]] + [rf["obj"](ri["obj"][gi]) for rf in fun_terms]
        for inner_e in inner_exprs:
            for op_name, op_cls in (("IndexedSum", IndexedSum), ("IndexedProduct", IndexedProduct)):
                for printer_name, printer in (("print_expression", print_expression), ("code_str", code_str)):
                    try:
                        text = printer(op_cls(inner_e, gi))
                    except Exception:  # pylint: disable=broad-except
                        continue
                    bad = [m.group(0) for m in INTERNAL.finditer(text) if m.group(0) not in allowed]
                    if bad:
                        raise Violation("print", f"{printer_name}:{op_name}", f"{printer_name} of an {op_name} over objects with display names shows generated internal name {bad[0]!r}: {text[:200]!r}")
    # printing after the expression was rebuilt by SymPy (doit / simplify / expand / subs of an index)
    idx_i, idx_k = sp.Idx("i"), sp.Idx("k")
    rebuilt_terms = []
    for r, t, p_, _v in terms:
        if r["kind"] == "indexed":
            rebuilt_terms.append((r, p_ * r["obj"][idx_i]))
        elif r["kind"] in ("symbol", "function", "quantity") and len(rebuilt_terms) < 8:
            rebuilt_terms.append((r, p_ * t))
    rebuilt_terms = rebuilt_terms[:10]
    if any(r["kind"] == "indexed" for r, _ in rebuilt_terms):
        E2 = sp.Add(*[t for _, t in rebuilt_terms])
        for how, fn in (("doit", lambda e: e.doit()), ("simplify", sp.simplify), ("expand", lambda e: sp.expand(e * 2)), ("subs-index", lambda e: e.subs(idx_i, idx_k))):
            try:
                e3 = fn(E2)
            except Exception:  # pylint: disable=broad-except
                continue
            by_name = {str(r["obj"].name): r for r, _ in rebuilt_terms if r["kind"] == "indexed"}
            for base in e3.atoms(sp.IndexedBase):
                r0 = by_name.get(str(base.name))
                if r0 is None:
                    continue
                if getattr(base, "dimension", None) != r0["obj"].dimension:
                    raise Violation("print", f"rebuilt-indexed:dimension:{how}", f"after {how}() the indexed symbol {r0['obj'].display_name!r} has dimension {getattr(base, 'dimension', None)}, it was created with {r0['obj'].dimension}")
                if str(getattr(base, "display_name", "")) != str(r0["obj"].display_name):
                    raise Violation("print", f"rebuilt-indexed:display_name:{how}", f"after {how}() the indexed symbol {r0['obj'].display_name!r} reads display name {getattr(base, 'display_name', None)!r}")
            for printer_name, printer in (("print_expression", print_expression), ("code_str", code_str)):
                text = " ;; ".join(printer(a) for a in sp.Add.make_args(e3))
                bad = [m.group(0) for m in INTERNAL.finditer(text) if m.group(0) not in allowed and not m.group(0).startswith("SYS")]
                if bad:
                    raise Violation("print", f"{printer_name}:after-{how}", f"{printer_name} shows generated internal name {bad[0]!r} after {how}() of an expression whose objects all have display names: {text[:240]!r}")
    # expressions that were rebuilt earlier and kept by the user, while the original indexed symbol may
    # have been dropped (and collected) since: a further rebuild must still know its names and dimension
    for kept in getattr(model, "kept", []):
        try:
            e4 = kept["expr"].doit()
        except Exception:  # pylint: disable=broad-except
            continue
        for base in e4.atoms(sp.IndexedBase):
            if str(base.name) != kept["name"]:
                continue
            if str(getattr(base, "display_name", "")) != kept["display"] or getattr(base, "dimension", None) != kept["dim"]:
                alive = kept["name"] in {str(r["obj"].name) for r in model.recs if r["kind"] == "indexed"}
                raise Violation("print", "kept-rebuilt-indexed", f"an expression rebuilt earlier and kept by the user was rebuilt again: its indexed symbol {kept['display']!r} now reads display name {getattr(base, 'display_name', None)!r} and dimension {getattr(base, 'dimension', None)} (created with {kept['dim']}; the original object was {'still alive' if alive else 'dropped'})")
    for r in model.recs:
        if r["kind"] == "function" and (r.get("extra") or {}).get("declared"):
            d = str(r["obj"].display_name)
            try:
                text = code_str(r["obj"])
            except Exception as e:  # pylint: disable=broad-except
                raise Violation("print", "code_str:bare:function", f"code_str of an unapplied function with declared arguments raised {type(e).__name__}: {str(e)[:120]}") from None
            bad = [m.group(0) for m in INTERNAL.finditer(text) if m.group(0) not in allowed]
            if bad:
                raise Violation("print", "code_str:bare:function", f"code_str of the unapplied function {d!r} shows generated internal name {bad[0]!r}: {text[:200]!r}")
            if d not in text:
                raise Violation("print", "code_str:bare:function", f"code_str of the unapplied function {d!r} does not show its display name: {text[:200]!r}")
    notes.append(f"terms={len(terms)} solved={solved}")
    return notes


def _apply(op: dict, model: Model, state: dict):  # pylint: disable=too-many-branches,too-many-statements
    import sympy as sp  # pylint: disable=import-outside-toplevel
    import symplyphysics as sx  # pylint: disable=import-outside-toplevel
    from sympy.physics import units  # pylint: disable=import-outside-toplevel
    from sympy.core.cache import clear_cache  # pylint: disable=import-outside-toplevel
    from sympy.core.parameters import global_parameters  # pylint: disable=import-outside-toplevel
    from symplyphysics.core.symbols import id_generator  # pylint: disable=import-outside-toplevel
    from symplyphysics.core.symbols.symbols import clone_as_indexed  # pylint: disable=import-outside-toplevel
    from .observe import COUNTERS as ids  # pylint: disable=import-outside-toplevel
    k = op["op"]
    f = state["faults"]
    if k == "jump":
        if ids.jump(op["prefix"], op["to"]):
            f["jump"] += 1
        return "jump"
    if k == "bulk":
        keep = state.setdefault("junk", [])
        for i in range(op["k"]):
            if op["kind"] == "symbol":
                keep.append(sx.Symbol("m", units.mass))
            elif op["kind"] == "function":
                keep.append(sx.Function("m"))
            else:
                keep.append(sx.Quantity((i + 2) * units.meter))
        f["bulk"] += 1
        return "bulk"
    if k == "clear_cache":
        clear_cache()
        f["clear_cache"] += 1
        return "clear"
    if k == "keep_rebuilt":
        cands = [r for r in model.recs if r["kind"] == "indexed" and not r["defaulted"]]
        if not cands or not global_parameters.evaluate:
            return "skipped"
        r = cands[op["src"] % len(cands)]
        e = (3 * r["obj"][sp.Idx("i")] + 1).doit()
        model.kept = getattr(model, "kept", [])
        model.kept.append({"expr": e, "name": str(r["obj"].name), "display": str(r["obj"].display_name), "dim": r["obj"].dimension})
        f["keep_rebuilt"] = f.get("keep_rebuilt", 0) + 1
        return "keep_rebuilt"
    if k == "failed_docs_page":
        # a documentation page of a law whose source raises half-way (after importing a catalogue
        # module and creating symbols); the caller catches the error and carries on
        import ast as _ast  # pylint: disable=import-outside-toplevel
        from symplyphysics.docs.parse import find_members_and_functions  # pylint: disable=import-outside-toplevel
        from symplyphysics.docs.patch import patch_sympy_evaluate  # pylint: disable=import-outside-toplevel
        src = ('"""\nBroken law\n==========\n"""\nfrom sympy import Eq\nfrom symplyphysics import symbols, clone_as_symbol, Symbol, Function\n'
               f'import {op["m"]} as dep\n'
               'first = clone_as_symbol(symbols.mass, subscript="1")\n"""\nFirst.\n"""\nsecond = Symbol("m")\n"""\nSecond.\n"""\n'
               'law = Eq(first, second * this_name_is_not_defined)\n"""\n:laws:symbol::\n"""\n')
        try:
            find_members_and_functions(patch_sympy_evaluate(_ast.parse(src)))
        except Exception:  # pylint: disable=broad-except
            pass
        global_parameters.evaluate = True  # the aborted page leaves the flag off; the user resets it
        f["failed_docs_page"] = f.get("failed_docs_page", 0) + 1
        return "failed_docs_page"
    if k == "drop":
        # the user lets go of some objects: the model forgets them, SymPy's cache is evicted and
        # the garbage collector runs, so their addresses may be reused by later creations
        import gc  # pylint: disable=import-outside-toplevel
        import hashlib  # pylint: disable=import-outside-toplevel
        keep = []
        referenced = {id(r["src"]) for r in model.recs if r.get("src") is not None}
        for i, r in enumerate(model.recs):
            h = hashlib.sha256(f"{op.get('salt', 0)}/{i}".encode()).digest()[0] / 256.0
            if h < op.get("frac", 0.5) and r["kind"] in ("symbol", "indexed", "function") and id(r) not in referenced:
                continue
            if h < op.get("frac", 0.5) / 2 and r["kind"] == "coordsys":
                # the user lets go of the system but keeps expressions written in its base scalars
                model.survivors = getattr(model, "survivors", []) + list(r["obj"].coord_system.base_scalars())
                continue
            keep.append(r)
        f["drop"] = f.get("drop", 0) + (len(model.recs) - len(keep))
        model.recs[:] = keep
        clear_cache()
        gc.collect()
        return "drop"
    if k == "churn":
        # many short-lived sources and clones: create, clone, check, release (address reuse)
        import gc  # pylint: disable=import-outside-toplevel
        for i in range(int(op["k"])):
            kw = dict(ASSUME[i % len(ASSUME)])
            src_ = sx.Symbol(op.get("name") or "c", units.length, **kw)
            exp_a = dict(src_.assumptions0)
            c1 = sx.clone_as_symbol(src_, subscript="1")
            c2 = clone_as_indexed(src_)
            for c_, helper in ((c1, "clone_as_symbol"), (c2, "clone_as_indexed")):
                if dict(c_.assumptions0) != exp_a:
                    raise Violation("clone", f"{helper}:assumptions", f"{helper} of a short-lived source created with {kw} (round {i}) has assumptions {sorted(dict(c_.assumptions0).items())}, source has {sorted(exp_a.items())}")
                if c_.dimension != src_.dimension:
                    raise Violation("clone", f"{helper}:dimension", f"{helper} of a short-lived source (round {i}) has dimension {c_.dimension}")
            if c1 == src_ or str(c1.name) == str(src_.name):
                raise Violation("alias", "clone-equals-source", f"clone equals its source (round {i})")
            del src_, c1, c2, c_
            if i % int(op.get("every", 1)) == 0:
                clear_cache()
                gc.collect()
        f["churn"] = f.get("churn", 0) + 1
        return "churn"
    if k == "flag_off":
        global_parameters.evaluate = False
        f["flag_off"] += 1
        return "flag_off"
    if k == "flag_on":
        global_parameters.evaluate = True
        return "flag_on"
    if k == "import":
        import importlib  # pylint: disable=import-outside-toplevel
        if not global_parameters.evaluate:
            return "skipped"  # importing a law with evaluation off is not a supported use
        importlib.import_module(op["m"])
        f["import"] += 1
        return "import"

    name, latex = op.get("name"), op.get("latex")
    if k == "symbol":
        kw = dict(op.get("assume") or {})
        if op.get("kw"):
            o = sx.Symbol(name, dimension=_dim(op["dim"]), display_latex=latex, **kw)
        else:
            o = sx.Symbol(name, _dim(op["dim"]), display_latex=latex, **kw)
        model.add("symbol", o, name, latex, _dim(op["dim"]), _expected_assumptions(kw), defaulted=not name, extra={"default_display": lambda o: str(o.name)})
    elif k == "indexed":
        kw = dict(op.get("assume") or {})
        if op.get("kw"):
            o = sx.IndexedSymbol(name, dimension=_dim(op["dim"]), display_latex=latex, **kw)
        else:
            o = sx.IndexedSymbol(name, None, _dim(op["dim"]), display_latex=latex, **kw)
        model.add("indexed", o, name, latex, _dim(op["dim"]), None, defaulted=name is None, extra={"default_display": lambda o: str(o.name), "kw": kw})
    elif k == "function":
        nargs = op.get("nargs")
        args = None if nargs is None else [sp.Symbol(f"arg{i}") for i in range(nargs)]
        declared = False
        pool_ = [r for r in model.recs if r["kind"] in ("symbol", "function")]
        if args is not None and op.get("arg_refs") and pool_:
            args = [pool_[i % len(pool_)]["obj"] for i in op["arg_refs"][:nargs]]
            declared = True
        o = sx.Function(name, args, _dim(op["dim"]), display_latex=latex)
        model.add("function", o, name, latex, _dim(op["dim"]), None, defaulted=not name, extra={"default_display": lambda o: str(o.name), "nargs": nargs, "declared": declared})
    elif k == "vecsymbol":
        from symplyphysics.core.experimental.vectors import VectorSymbol  # pylint: disable=import-outside-toplevel
        o = VectorSymbol(name, _dim(op["dim"]), display_latex=latex)
        vid = ids.get("VEC")
        model.add("vecsymbol", o, name if name else f"VEC{vid}", latex if (latex and name) or latex else (f"\\mathbf{{{name}}}" if name else f"\\mathbf{{v}}_{{{vid}}}"), _dim(op["dim"]), None)
    elif k == "vecfunction":
        from symplyphysics.core.experimental.vectors import VectorFunction  # pylint: disable=import-outside-toplevel
        o = VectorFunction(name, None, dimension=_dim(op["dim"]), display_latex=latex)
        fid = ids.get("FUN")
        model.add("vecfunction", o, name if name else f"FUN{fid}", latex if latex else (f"\\mathbf{{{name}}}" if name else f"\\mathbf{{f}}_{{{fid}}}"), _dim(op["dim"]), None)
    elif k == "quantity":
        unit = getattr(units, op["unit"])
        expr = op["value"] * unit
        scale = sp.Rational(str(op["value"])) * sp.nsimplify(unit.scale_factor)
        if op.get("prefix"):
            expr = expr * getattr(sx.prefixes, op["prefix"])
            scale *= {"kilo": 1000, "milli": sp.Rational(1, 1000)}[op["prefix"]]
        dim = {"meter": units.length, "second": units.time, "kilogram": units.mass, "kelvin": units.temperature}[op["unit"]]
        if op.get("override") and not op.get("prefix"):
            scale = sp.Rational(str(op["value"]))
            o = sx.Quantity(op["value"], display_symbol=name, display_latex=latex, dimension=dim)
        else:
            o = sx.Quantity(expr, display_symbol=name, display_latex=latex)
        model.add("quantity", o, name, latex if latex else None, dim, None, scale=complex(scale), defaulted=not name, extra={"default_display": lambda o: str(o.name), "value": scale})
    elif k == "xcoordsys":
        from symplyphysics.core.experimental.coordinate_systems import coordinate_systems as xcs  # pylint: disable=import-outside-toplevel
        cls = [xcs.CartesianCoordinateSystem, xcs.CylindricalCoordinateSystem, xcs.SphericalCoordinateSystem][op["type"]]
        o = cls()
        model.add("xcoordsys", o, None, None, None)
    elif k == "wrapper":
        from symplyphysics.core.operations import symbolic  # pylint: disable=import-outside-toplevel
        cands = [r for r in model.recs if r["kind"] == "symbol"]
        if not cands:
            return "skipped"
        src = cands[op["src"] % len(cands)]
        seen = state.setdefault("wrapped", set())
        if (op["cls"], id(src["obj"])) in seen:
            return "skipped"  # a second wrapper of the same argument is (rightly) the same symbol
        seen.add((op["cls"], id(src["obj"])))
        o = getattr(symbolic, op["cls"])(src["obj"])
        model.add("wrapper", o, None, None, src["obj"].dimension, None, src=None, extra={"factor": src["obj"]})
    elif k == "quantity_of":
        qs = [r for r in model.recs if r["kind"] == "quantity"]
        if not qs:
            return "skipped"
        src = qs[op["src"] % len(qs)]
        o = sx.Quantity(src["obj"], display_symbol=name, display_latex=latex)  # a new quantity with the same value
        model.add("quantity", o, name, latex if latex else None, src["dim"], None, scale=src["scale"], defaulted=not name, extra={"default_display": lambda o: str(o.name), "value": src["extra"]["value"]})
    elif k == "rotate":
        from symplyphysics.core.coordinate_systems.coordinate_systems import coordinates_rotate  # pylint: disable=import-outside-toplevel
        css = [r for r in model.recs if r["kind"] == "coordsys" and r["obj"].coord_system_type == sx.CoordinateSystem.System.CARTESIAN]
        if not css or not global_parameters.evaluate:
            return "skipped"  # sympy.vector cannot build a rotation matrix with evaluation off
        src = css[op["src"] % len(css)]
        cs = src["obj"].coord_system
        axis = [cs.i, cs.j, cs.k][op["axis"]]
        o = coordinates_rotate(src["obj"], sp.pi / (1 + op["angle"]), axis)
        model.add("coordsys", o, None, None, None)
    elif k == "coordsys":
        t = list(sx.CoordinateSystem.System)[op["type"]]
        o = sx.CoordinateSystem(t)
        model.add("coordsys", o, None, None, None)
    elif k == "transform":
        css = [r for r in model.recs if r["kind"] == "coordsys"]
        if not css:
            return "skipped"
        src = css[op["src"] % len(css)]
        t = list(sx.CoordinateSystem.System)[op["type"]]
        o = sx.coordinates_transform(src["obj"], t)
        model.add("coordsys", o, None, None, None)
    elif k in ("clone_symbol", "clone_function", "clone_indexed"):
        cands = model.symbol_like()
        if not cands:
            return "skipped"
        src = cands[op["src"] % len(cands)]
        so = src["obj"]
        kw = {}
        if name:
            kw["display_symbol"] = name
        if latex:
            kw["display_latex"] = latex
        exp_code = name or str(so.display_name)
        exp_latex = latex or str(so.display_latex)
        passed = dict(op.get("assume") or {})
        if k == "clone_symbol":
            exp_code, exp_latex = _sub(exp_code, exp_latex, op.get("subscript"))
            o = sx.clone_as_symbol(so, subscript=op.get("subscript"), **kw, **passed)
            exp_a = _expected_assumptions(passed) if passed else dict(so.assumptions0)
            model.add("symbol", o, exp_code, exp_latex, so.dimension, exp_a, src=src)
        elif k == "clone_indexed":
            o = clone_as_indexed(so, **kw, **passed)
            model.add("indexed", o, exp_code, exp_latex, so.dimension, None, src=src, extra={"kw": passed or dict(so.assumptions0)})
        else:
            exp_code, exp_latex = _sub(exp_code, exp_latex, op.get("subscript"))
            nargs = op.get("nargs")
            args = None if nargs is None else [sp.Symbol(f"arg{i}") for i in range(nargs)]
            o = sx.clone_as_function(so, args, subscript=op.get("subscript"), **kw)
            model.add("function", o, exp_code, exp_latex, so.dimension, None, src=src, extra={"nargs": nargs, "src_assume": dict(so.assumptions0)})
    else:
        raise ValueError(k)
    return "created"


def child_run(job: dict) -> dict:
    from sympy.core.parameters import global_parameters  # pylint: disable=import-outside-toplevel
    from symplyphysics.core.symbols import id_generator  # pylint: disable=import-outside-toplevel
    import sys as _sys  # pylint: disable=import-outside-toplevel
    model = Model()
    model.base_modules = set(_sys.modules)
    state = {"faults": {"jump": 0, "bulk": 0, "clear_cache": 0, "flag_off": 0, "import": 0, "drop": 0, "churn": 0}}
    events = []
    violation = None
    soft = []
    steps = 0
    for step, op in enumerate(job["ops"]):
        steps += 1
        outcome = None
        try:
            try:
                if op.get("thread"):
                    import threading  # pylint: disable=import-outside-toplevel
                    box: dict = {}

                    def work(op=op):
                        try:
                            box["out"] = _apply(op, model, state)
                        except BaseException as ex:  # pylint: disable=broad-except
                            box["exc"] = ex

                    th = threading.Thread(target=work)
                    th.start()
                    th.join()
                    state["faults"]["other_thread"] = state["faults"].get("other_thread", 0) + 1
                    if "exc" in box:
                        raise box["exc"]
                    outcome = box["out"]
                else:
                    outcome = _apply(op, model, state)
            except Violation:
                raise
            except RecursionError:
                raise Violation("exception", op["op"], "RecursionError while creating") from None
            except Exception as e:  # pylint: disable=broad-except
                raise Violation("exception", op["op"], f"{type(e).__name__}: {str(e)[:200]} while executing {op}") from None
            # the oracle itself always runs with SymPy's default evaluation mode
            flag = global_parameters.evaluate
            global_parameters.evaluate = True
            try:
                todo = []
                if outcome == "created":
                    todo.append((model.recs[-1], "clone" if model.recs[-1]["src"] else "create"))
                # I2 durability: everything created earlier still reads back the same
                todo.extend((r, "durability") for r in (model.recs[:-1] if outcome == "created" else model.recs))
                for r, where in todo:
                    for _ in range(8):  # one record may fail several aspects
                        try:
                            _check_record(r, where)
                            break
                        except Violation as v:
                            soft.append(dict(v.v, step=step, op=op))
                if outcome == "created":
                    _check_distinct(model)
            finally:
                global_parameters.evaluate = flag
        except Violation as v:
            violation = dict(v.v, step=step, op=op)
            events.append([step, op["op"], "VIOLATION"])
            break
        last = model.recs[-1] if outcome == "created" else None
        events.append([step, op["op"], outcome, _internal_name(last) if last else ""])
    notes = []
    if violation is None and job.get("final", True):
        flag = global_parameters.evaluate
        global_parameters.evaluate = True
        try:
            notes = _final_checks(model)
        except Violation as v:
            violation = dict(v.v, step=len(job["ops"]), op={"op": "final"})
        except RecursionError:
            violation = {"oracle": "exception", "subject": "final", "detail": "RecursionError in final checks", "cls": "C09|exception|final", "step": len(job["ops"])}
        finally:
            global_parameters.evaluate = flag
        events.append([len(job["ops"]), "final", "VIOLATION" if violation else "ok"])
    displays = sorted(str(r["obj"].display_name) for r in model.recs if r["kind"] not in ("coordsys", "wrapper", "xcoordsys") and not r["defaulted"])
    collisions = len(displays) - len(set(displays))
    f = state["faults"]
    from .c14_vectors import _cache_really_off  # pylint: disable=import-outside-toplevel
    if _cache_really_off():
        f["sympy_cache_off_run"] = 1
    fired = sum(f.values())
    from .observe import COUNTERS as ids  # pylint: disable=import-outside-toplevel
    digit_class = ",".join(f"{p}{str(ids.get(p, 0))[0]}x{len(str(ids.get(p, 0)))}" for p in ("SYM", "FUN", "QTY", "SYS", "VEC"))
    probes = {
        "display-name collision realised": int(collisions > 0),
        "display name that looks like an internal name": int(any(INTERNAL.search(d) for d in displays)),
        "clone of a clone": int(any(r["src"] and r["src"].get("src") for r in model.recs)),
        "creation while evaluate flag off": int(f["flag_off"] > 0),
        "counter crossed a digit boundary during the run": int(any(o[1] == "jump" for o in events)),
    }
    return {
        "events": events,
        "digest": core.digest(events),
        "violation": violation or (soft[0] if soft else None),
        "violations": ([violation] if violation else []) + soft,
        "faults": f,
        "probes": probes,
        "inconclusive": [],
        "steps": steps,
        "nontrivial": collisions > 0 and fired > 0,
        "states": [f"{digit_class}|{core.digest(displays)[:8]}|{collisions}"],
        "notes": notes,
        "objects": len(model.recs),
    }


# ============================================================================ driver side


def judge(job, res, ctx=None):
    if res.get("status") != "ok":
        return []
    seen = set()
    out = []
    for v in (res.get("result") or {}).get("violations") or []:
        if v["cls"] not in seen:
            seen.add(v["cls"])
            out.append(v)
    return out


def simplify(job):
    out = []
    ops = job["ops"]
    for i, op in enumerate(ops):
        for key, simple in (("latex", None), ("subscript", None), ("assume", None), ("name", "m"), ("nargs", None), ("prefix", None), ("kw", False), ("thread", False)):
            if key in op and op[key] not in (simple, {}):
                out.append(dict(job, ops=ops[:i] + [dict(op, **{key: simple})] + ops[i + 1:]))
        if op["op"] == "jump":
            for to in (9, 99, 999):
                if to < op["to"]:
                    out.append(dict(job, ops=ops[:i] + [dict(op, to=to)] + ops[i + 1:]))
        if op["op"] == "bulk" and op["k"] > 1:
            out.append(dict(job, ops=ops[:i] + [dict(op, k=1)] + ops[i + 1:]))
    if job["env"] != {"hashseed": 0, "cache": 1000}:
        out.append(dict(job, env={"hashseed": 0, "cache": 1000}))
    return out[:300]


def finding_key(job, violation):
    return violation["cls"]
