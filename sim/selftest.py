"""Determinism self-test: the same (seed, run) executed twice -- in different zygotes, at two
worker counts, i.e. in different fresh interpreters -- must give identical event-log digests.
(PYTHONHASHSEED and cache size are part of the schedule, so they are equal by construction;
what may legitimately differ is ASLR, zygote identity, dispatch order and load.)"""
from __future__ import annotations

import importlib
import os
import sys

from . import core


def _digests(prop, jobs, workers):
    pool = core.Pool(prop, workers=workers)
    try:
        ress = pool.run(jobs)
    finally:
        pool.close()
    out = []
    for r in ress:
        res = r.get("result") or {}
        out.append((r.get("status"), res.get("digest"), core.digest(res.get("violation")), core.digest(res.get("obs_digest"))))
    return out


def main(seed: int) -> int:
    props = os.environ.get("VERIF_SELFTEST_PROPS", "C14,C09,C03,C19").split(",")
    n = int(os.environ.get("VERIF_SELFTEST_RUNS", "96"))
    bad = 0
    for prop in props:
        if prop not in core.PROP_MODULES:
            continue
        try:
            mod = importlib.import_module(core.PROP_MODULES[prop])
        except ImportError:
            continue
        jobs = [mod.generate(seed + 1, k, "quick") for k in range(n)]
        if hasattr(mod, "selftest_jobs"):
            jobs = mod.selftest_jobs(seed + 1, n)
        a = _digests(prop, jobs, 16)
        b = _digests(prop, jobs, 3)
        diff = [k for k, (x, y) in enumerate(zip(a, b)) if x != y and "timeout" not in (x[0], y[0])]
        timeouts = sum(1 for x, y in zip(a, b) if "timeout" in (x[0], y[0]))
        core.log(f"selftest determinism {prop}: {len(jobs)} runs x 2 executions (16 and 3 workers, separate interpreters): {len(diff)} digest mismatches, {timeouts} timeouts, {len(set(x[1] for x in a))} distinct digests")
        for k in diff[:5]:
            core.log("  MISMATCH run", k, a[k], b[k])
        bad += len(diff)
    if bad:
        core.log("HARNESS-NONDETERMINISM: determinism self-test failed")
        return 3
    return 0
