"""C14 -- coordinate-free vector algebra simplification preserves value in R^3.

Simulated system: the experimental vectors module, whose behaviour depends on CPython
object addresses (`key = id`, `_hashable_content = (id(self),)`), on SymPy's LRU cache
and on creation order.  The simulator owns all three:

* `vectors_module.id` is shadowed by `VirtualIds.virtual_id` (module globals are looked
  up before builtins), so the "memory layout" of a run is an explicit part of its op list;
* `clear_cache()` is injected between ops and *inside* constructor calls (at the k-th call
  of the `id` seam);
* creation order / counter positions are ops.

Oracle: a reference evaluator of the *model AST* over 3-tuples of mpmath numbers (60
digits) against an independent evaluator of the *library's output tree*.
"""
from __future__ import annotations

import hashlib
import json
import signal

from . import core

PROP = "C14"
MIN_RUNS = {"quick": 2000, "thorough": 0}  # the quick tier explores the same runs on a loaded machine (the budget only stops it beyond these)
DPS = 60
TOL = 1e-30
OP_WALL_S = 20.0  # wall guard only: exceeding it is *inconclusive*, never a verdict
OP_ID_BUDGET = 400000  # logical step budget per op (seam calls): bounds a run deterministically; exceeding it is inconclusive

VECTOR_TAGS = {"v", "vf", "vzero", "vadd", "vscale", "vneg", "cross"}
SCALAR_TAGS = {"s", "q", "t", "sf", "dot", "mixed", "norm", "sadd", "smul", "spow", "sneg", "sinv", "ssqrt"}

# ============================================================================ generator
# (driver side; pure functions of the PRNG)


def _gen_vec(rng, d, cfg):
    w = cfg["w"]
    if d <= 0 or rng.random() < w["leaf"]:
        r = rng.random()
        if cfg["nf"] and r < cfg["p_vf"]:
            return ["vf", rng.randrange(cfg["nf"]), rng.choice([0, 0, 0, 1, 2, 3, 4])]
        if r > 0.97:
            return ["vzero"]
        return ["v", rng.randrange(cfg["nv"])]
    kind = rng.choices(["vadd", "vscale", "vneg", "cross"], [w["vadd"], w["vscale"], w["vneg"], w["cross"]])[0]
    if kind == "vadd":
        return ["vadd"] + [_gen_vec(rng, d - 1, cfg) for _ in range(rng.choice([2, 2, 3]))]
    if kind == "vscale":
        return ["vscale", _gen_scalar(rng, d - 1, cfg), _gen_vec(rng, d - 1, cfg), rng.choice(["l", "r"])]
    if kind == "vneg":
        return ["vneg", _gen_vec(rng, d - 1, cfg)]
    return ["cross", _gen_vec(rng, d - 1, cfg), _gen_vec(rng, d - 1, cfg)]


def _gen_rat(rng):
    return ["q", rng.choice([-3, -2, -1, 1, 2, 3, 5, -5, 7]), rng.choice([1, 1, 2, 3])]


def _gen_scalar(rng, d, cfg):
    w = cfg["w"]
    if d <= 0 or rng.random() < w["leaf"]:
        r = rng.random()
        if cfg["has_t"] and r < 0.25:
            return ["t"]
        if cfg["has_sf"] and r < 0.35:
            return ["sf"]
        if r < 0.7 and cfg["ns"]:
            return ["s", rng.randrange(cfg["ns"])]
        return _gen_rat(rng)
    kind = rng.choices(["dot", "mixed", "norm", "sadd", "smul", "spow", "sneg", "sinv", "ssqrt"],
        [w["dot"], w["mixed"], w["norm"], w["sadd"], w["smul"], w["spow"], w["sneg"], w["sinv"], w["ssqrt"]])[0]
    if kind == "dot":
        return ["dot", _gen_vec(rng, d - 1, cfg), _gen_vec(rng, d - 1, cfg)]
    if kind == "mixed":
        return ["mixed", _gen_vec(rng, d - 1, cfg), _gen_vec(rng, d - 1, cfg), _gen_vec(rng, d - 1, cfg)]
    if kind == "norm":
        return ["norm", _gen_vec(rng, d - 1, cfg)]
    if kind == "sadd":
        return ["sadd", _gen_scalar(rng, d - 1, cfg), _gen_scalar(rng, d - 1, cfg)]
    if kind == "smul":
        return ["smul", _gen_scalar(rng, d - 1, cfg), _gen_scalar(rng, d - 1, cfg)]
    if kind == "spow":
        return ["spow", _gen_scalar(rng, d - 1, cfg), rng.choice([2, 2, 3])]
    if kind == "sneg":
        return ["sneg", _gen_scalar(rng, d - 1, cfg)]
    if kind == "ssqrt":
        # a non-polynomial coefficient: sqrt of a product / square of scalar symbols (the symbols may
        # take negative values; the value is still well defined, possibly complex, and must be preserved)
        if not cfg["ns"]:
            return _gen_rat(rng)
        free = [i for i, a in enumerate(cfg["assumes"]) if a in ("none", "real")]
        i = rng.randrange(cfg["ns"])
        if len(free) >= 1 and rng.random() < 0.7:
            i, j = rng.choice(free), rng.choice(free)  # same sign at each evaluation point: real value
            return ["ssqrt", ["smul", ["s", i], ["s", j]]]
        return ["ssqrt", ["spow", ["s", i], 2]]
    # reciprocal of a leaf only: the reference must never divide by an accidental zero
    r = rng.random()
    if r < 0.35:
        # 1/norm(v) of a plain symbol (unit vectors): the assigned vectors are never zero
        return ["sinv", ["norm", ["v", rng.randrange(cfg["nv"])]]]
    if cfg["ns"] and r < 0.75:
        return ["sinv", ["s", rng.randrange(cfg["ns"])]]
    return ["sinv", _gen_rat(rng)]


def _size(ast) -> int:
    return 1 + sum(_size(x) for x in ast[1:] if isinstance(x, list) and x and isinstance(x[0], str))


def _template(rng, cfg):
    """Shapes where the rewrite rules live (drawn in a fraction of the expressions)."""
    nv = cfg["nv"]

    def v():
        if cfg["nf"] and rng.random() < 0.3:
            return ["vf", rng.randrange(cfg["nf"]), rng.choice([0, 0, 1, 2, 3, 4])]
        return ["v", rng.randrange(nv)]

    def lin(*vs):
        terms = [["vscale", _gen_rat(rng), x, rng.choice("lr")] if rng.random() < 0.6 else x for x in vs]
        return terms[0] if len(terms) == 1 else ["vadd"] + terms

    a, b, c, d = v(), v(), v(), v()
    pick = rng.choice(["norm_scaled_by_product", "dot_cross_span", "dot_cross_cross", "cross_cross_left", "cross_cross_right", "cross_cross_cross", "mixed_repeated", "mixed_composite", "norm_common_factor", "unit_vector", "sqrt_coefficient"])
    if pick == "sqrt_coefficient" and cfg["ns"]:
        free = [i for i, a in enumerate(cfg["assumes"]) if a in ("none", "real")]
        if free:
            k = ["ssqrt", ["smul", ["s", rng.choice(free)], ["s", rng.choice(free)]]]
        else:
            k = ["ssqrt", ["spow", ["s", rng.randrange(cfg["ns"])], 2]]
        scaled = ["vadd", ["vscale", k, a, "l"], b]
        return rng.choice([["dot", scaled, c], ["cross", scaled, c], ["mixed", scaled, c, d], ["norm", scaled]])
    if pick == "norm_scaled_by_product":
        prod = rng.choice([["mixed", b, a, ["vadd", c, d]], ["dot", ["vneg", a], ["vadd", a, b]], ["dot", ["cross", a, b], ["vadd", c, d]], ["sneg", ["sadd", ["dot", a, b], ["mixed", a, b, c]]]])
        return ["norm", ["vscale", prod, rng.choice([a, b, c]), rng.choice("lr")]]
    if pick == "dot_cross_span":
        return ["dot", ["cross", a, b], lin(a, b)] if rng.random() < 0.5 else ["dot", ["vadd", ["cross", a, b], c], lin(a)]
    if pick == "dot_cross_cross":
        return ["dot", ["cross", a, b], ["cross", c, d]]
    if pick == "cross_cross_left":
        return ["cross", ["cross", a, b], lin(c, d)]
    if pick == "cross_cross_right":
        return ["cross", lin(c, d), ["cross", a, b]]
    if pick == "cross_cross_cross":
        return ["cross", ["cross", a, b], ["cross", c, d]]
    if pick == "mixed_repeated":
        return ["mixed", lin(a, b), lin(b, c), lin(a, c)]
    if pick == "mixed_composite":
        return ["mixed", ["cross", a, b], c, lin(d, a)]
    if pick == "norm_common_factor":
        k = ["s", rng.randrange(cfg["ns"])] if cfg["ns"] else _gen_rat(rng)
        return ["norm", ["vadd", ["vscale", k, a, "l"], ["vscale", k, b, "l"]]]
    return ["vscale", ["sinv", ["norm", ["v", rng.randrange(nv)]]], ["v", rng.randrange(nv)], "l"]


def _vid(rng):
    return rng.getrandbits(40) | 1


def generate(seed: int, run: int, tier: str) -> dict:
    rng = core.rng_for(seed, PROP, run, "gen")
    # swarm: every run draws its own sizes, weights and fault mix
    nv = rng.choice([2, 3, 3, 4])
    ns = rng.choice([0, 1, 2, 3])
    nf = rng.choice([0, 0, 1, 2])
    has_t = nf > 0 or rng.random() < 0.3
    has_sf = has_t and rng.random() < 0.4
    w = {
        "leaf": rng.choice([0.1, 0.2, 0.35]),
        "vadd": rng.choice([1, 3, 5]),
        "vscale": rng.choice([1, 2, 4]),
        "vneg": rng.choice([0, 1]),
        "cross": rng.choice([2, 5, 8]),
        "dot": rng.choice([2, 5, 8]),
        "mixed": rng.choice([0, 3, 6]),
        "norm": rng.choice([0, 2, 4]),
        "sadd": rng.choice([0, 1, 2]),
        "smul": rng.choice([0, 1, 2]),
        "spow": rng.choice([0, 1]),
        "sneg": rng.choice([0, 1]),
        "sinv": rng.choice([0, 0, 1]),
        "ssqrt": rng.choice([0, 0, 1, 2]),
    }
    assumes = [rng.choice(["none", "real", "positive", "negative"]) for _ in range(ns)]
    cfg = {"nv": nv, "ns": ns, "nf": nf, "has_t": has_t, "has_sf": has_sf, "w": w, "p_vf": rng.choice([0.2, 0.5]), "assumes": assumes}
    depth = rng.choice([2, 3, 3, 4, 4, 5])
    n_exprs = rng.choice([1, 2, 3, 4])
    cap = rng.choice([8, 14, 14, 22, 22, 34]) if tier == "quick" else rng.choice([8, 14, 22, 34, 50])
    asts = []
    p_template = rng.choice([0.0, 0.15, 0.4])
    for _ in range(n_exprs):
        for _attempt in range(50):
            if rng.random() < p_template:
                ast = _template(rng, cfg)
            else:
                ast = _gen_scalar(rng, depth, cfg) if rng.random() < 0.6 else _gen_vec(rng, depth, cfg)
            if 2 <= _size(ast) <= cap:
                break
        asts.append(ast)
    if rng.random() < 0.25:
        # the same two operands under different products in one process (dot, cross, mixed)
        cfg2 = dict(cfg, p_vf=0.6)
        A, B = _gen_vec(rng, rng.choice([0, 1]), cfg2), _gen_vec(rng, rng.choice([0, 1]), cfg2)
        asts = asts[:2] + [["dot", A, B], ["cross", A, B]] + ([["mixed", A, B, ["v", rng.randrange(nv)]]] if rng.random() < 0.5 else [])
    p_evict = rng.choice([0.0, 0.0, 0.2, 0.5])
    p_interrupt = rng.choice([0.0, 0.0, 0.15, 0.4])
    p_clear = rng.choice([0.0, 0.1, 0.4])
    p_diff = rng.choice([0.0, 0.3, 0.7]) if has_t else rng.choice([0.0, 0.1])
    fargs = [rng.choice([["t"], ["t"], ["t", "s0"], ["s0", "t"], ["0", "t"], ["t", "0"]]) if ns else rng.choice([["t"], ["t"], ["0", "t"]]) for _ in range(nf)]
    # declared signature of each vector function (None, equal to, or different from what it is applied to)
    fdecl = [rng.choice([None, None, "same", ["t"], ["s0"]]) for _ in range(nf)]

    ops: list = []
    epochs = rng.choice([1, 2, 2, 3])
    for _ in range(epochs):
        order = list(range(nv))
        rng.shuffle(order)
        if rng.random() < 0.3:
            ops.append({"op": "bump", "prefix": "SYM", "to": rng.choice([9, 99, 999, 9999]) * rng.choice([1, 1, 1, 2, 5]) - rng.randrange(0, 8)})
        # display names: distinct, all equal ("F" used by several laws), or defaulted
        naming = rng.choice(["distinct", "distinct", "same", "same", "default", "pairs", "digits"])
        names = {"distinct": [f"v{i}" for i in range(nv)], "same": ["F"] * nv, "default": [None] * nv, "pairs": [f"u{i // 2}" for i in range(nv)],
                 "digits": ["r1"] + ["r"] * (nv - 1)}[naming]
        junk = {"name": "r", "k": rng.choice([8, 9, 10, 11, 19, 20])} if naming == "digits" else None
        fnames = rng.choice([None, ["F"] * nf]) if nf else None
        ops.append({"op": "fresh", "order": order, "vids": [_vid(rng) for _ in order], "assume": assumes, "fargs": fargs, "fdecl": fdecl, "sorder": rng.sample(range(ns), ns), "names": names, "fnames": fnames, "junk": junk, "thread": rng.random() < 0.15, "thread_each": rng.random() < 0.12})
        for ast in asts:
            if rng.random() < p_clear:
                ops.append({"op": "clear_cache"})
            mode = rng.choice(["auto", "auto", "uneval_doit", "ctx_uneval_doit"])
            evict = sorted(rng.sample(range(1, rng.choice([30, 120, 400])), rng.choice([1, 2, 3, 6]))) if rng.random() < p_evict else []
            if rng.random() < p_interrupt:
                # the same expression is first evaluated with an interrupt at the k-th seam call, then
                # (further down, as usual) without: the interrupted attempt must leave nothing behind
                ops.append({"op": "build", "ast": ast, "mode": "auto", "evict": [], "interrupt_at": rng.choice([1, 2, 3, 5, 8, 13, 21, 34, 55, 89])})
            if rng.random() < p_diff and _size(ast) <= 16:
                var = "t" if has_t and rng.random() < 0.85 else ("s%d" % rng.randrange(ns) if ns else "t")
                dop = {"op": "diff", "ast": ast, "var": var, "order": rng.choice([1, 1, 1, 2]) if _size(ast) <= 9 else 1, "via": rng.choice(["diff", "vector_diff", "derivative_doit"]), "evict": evict, "mode": rng.choice(["auto", "auto", "uneval"])}
                if ns and _size(ast) <= 9 and rng.random() < 0.2:
                    # mixed partial derivative w.r.t. two different scalar parameters
                    dop["vars"] = rng.choice([["t", "s0"], ["s0", "t"]])
                ops.append(dop)
            else:
                ops.append({"op": "build", "ast": ast, "mode": mode, "evict": evict})
    if rng.random() < 0.2 and len(asts) >= 1:
        # two or three caller threads evaluate expressions at the same time
        n_thr = rng.choice([2, 2, 3])
        conc = [rng.choice(asts) if rng.random() < 0.5 else _template(rng, cfg) for _ in range(n_thr)]
        conc = [a for a in conc if _size(a) <= 20 and "vf" not in core.canon(a)] or [["dot", ["v", 0], ["v", 1]], ["cross", ["v", 1], ["v", 0]]]
        while len(conc) < 2:
            conc.append(["mixed", ["v", 0], ["vadd", ["v", 1], ["v", 0]], ["v", 2 % nv]])
        n_sw = rng.choice([1, 3, 8, 20, 60])
        ops.append({"op": "concurrent", "asts": conc, "switch": sorted(rng.sample(range(1, rng.choice([60, 300, 1500])), min(n_sw, 50)))})
    env = {"hashseed": rng.choice([0, 1, 7, 42]), "cache": rng.choice([1000, 1000, 1000, 25])}
    if rng.random() < 0.12:
        # environment fault: SymPy's cache switched off for the whole process (SYMPY_USE_CACHE=no), so
        # nothing the library does may rely on two constructions returning one object
        env = {"hashseed": env["hashseed"], "cache": 1000, "environ": {"SYMPY_USE_CACHE": "no"}}
    return {"prop": PROP, "seed": seed, "run": run, "env": env, "timeout": 120, "idseed": rng.getrandbits(48), "reuse_ids": rng.random() < 0.4, "ops": ops}


def systematic_jobs(tier: str, seed: int, ctx) -> list[dict]:
    jobs = []
    n = 4600 if tier == "quick" else 20000
    for i, env in enumerate([{"hashseed": 0, "cache": 1000}, {"hashseed": 7, "cache": 25}]):
        jobs.append({"prop": PROP, "seed": seed, "run": f"sys:session:{i}", "env": env, "timeout": 900, "idseed": 1000 + i, "reuse_ids": bool(i),
                     "ops": [{"op": "fresh", "order": [0, 1, 2], "vids": [], "assume": [], "fargs": [], "sorder": []}, {"op": "session", "n": n, "rot": i}]})
    return jobs


# ============================================================================ child side

_STATE = {}


def _cache_really_off() -> bool:
    """The environment fault fired only if SymPy itself reports that it runs without its cache."""
    from sympy.core import cache as sc  # pylint: disable=import-outside-toplevel
    return getattr(sc, "USE_CACHE", "yes") == "no" and getattr(sc.cacheit, "__name__", "") == "__cacheit_nocache"


def zygote_init() -> None:
    import sys  # pylint: disable=import-outside-toplevel
    import mpmath  # pylint: disable=import-outside-toplevel,unused-import
    import symplyphysics.core.experimental.vectors as vm  # pylint: disable=import-outside-toplevel
    ids = VirtualIds()
    vm.id = ids.virtual_id  # the seam: module globals shadow builtins
    _STATE["ids"] = ids
    _STATE["vm"] = vm
    # further cooperative fault points: module-global helpers the constructors call by name
    for name in ("split_factor", "into_terms", "is_atomic_vector", "_check_vector", "sort_with_sign"):
        orig = getattr(vm, name)

        def make(orig):
            def fault_point(*a, **k):
                ids.tick()
                return orig(*a, **k)
            fault_point.__wrapped__ = orig
            return fault_point

        setattr(vm, name, make(orig))
    # reach probes: line events on the rewrite-rule functions (sys.monitoring, Python 3.12)
    mon = sys.monitoring
    tool = 4
    mon.use_tool_id(tool, "verif-c14")
    codes = []
    for cls in (vm.VectorNorm, vm.VectorDot, vm.VectorCross, vm.VectorMixedProduct, vm.AppliedVectorFunction, vm.VectorDerivative, vm.VectorSymbol):
        for name in ("__new__", "_eval_vector_dot", "_eval_vector_cross", "_eval_derivative", "_eval_vector_norm"):
            f = cls.__dict__.get(name)
            if f is None:
                continue
            f = getattr(f, "__func__", f)
            f = getattr(f, "__wrapped__", f)
            if hasattr(f, "__code__"):
                codes.append(f.__code__)
    for f in (vm._ordered_mul,):  # pylint: disable=protected-access
        codes.append(f.__code__)
    hits: set = set()

    def on_line(code, line):
        hits.add(f"{code.co_qualname}+{line - code.co_firstlineno}")
        return mon.DISABLE

    mon.register_callback(tool, mon.events.LINE, on_line)
    for c in codes:
        mon.set_local_events(tool, c, mon.events.LINE)
    _STATE["hits"] = hits
    _STATE["all_lines"] = sorted({f"{c.co_qualname}+{ln - c.co_firstlineno}" for c in codes for (_, _, ln) in c.co_lines() if ln is not None and ln > c.co_firstlineno})


class VirtualIds:
    """Simulator-assigned object identities ("addresses").

    Keyed by real address. In the default mode a strong reference is held, so an address is
    never reused inside a run. With `reuse=True` the table holds weak references instead: when
    an object is freed (e.g. SymPy's cache was evicted and nothing else refers to it) its
    virtual address goes to a LIFO free list and is handed to the next new object -- which is
    what CPython's allocator does with real addresses."""

    def __init__(self):
        self.table: dict[int, int] = {}
        self.keep: list = []
        self.refs: dict[int, object] = {}
        self.free: list[int] = []
        self.reuse = False
        self.reused = 0
        self.idseed = 0
        self.counter = 0
        self.calls = 0
        self.evict_at: set[int] = set()
        self.evicted = 0
        self.op_calls = 0

    def reset(self, idseed: int, reuse: bool = False) -> None:
        self.table.clear()
        self.keep.clear()
        self.refs.clear()
        self.free.clear()
        self.reuse = reuse
        self.reused = 0
        self.idseed = idseed
        self.counter = 0
        self.calls = 0

    def _remember(self, obj, rid: int, vid: int) -> None:
        self.table[rid] = vid
        if self.reuse:
            import weakref  # pylint: disable=import-outside-toplevel

            def gone(_ref, rid=rid, vid=vid):
                if self.table.get(rid) == vid:
                    del self.table[rid]
                    self.free.append(vid)
                self.refs.pop(rid, None)

            try:
                self.refs[rid] = weakref.ref(obj, gone)
                return
            except TypeError:
                pass
        self.keep.append(obj)

    def assign(self, obj, vid: int) -> None:
        self._remember(obj, id(obj), vid)

    interrupt_at = 0
    interrupted = 0

    def begin_op(self, evict_at, interrupt_at: int = 0) -> None:
        self.op_calls = 0
        self.evict_at = set(evict_at or ())
        self.interrupt_at = int(interrupt_at or 0)

    def tick(self) -> None:
        """One logical step: every call through a seam (`id`, `split_factor`, `into_terms`,
        `is_atomic_vector`, `_check_vector`, `sort_with_sign`) is a cooperative fault point
        where the schedule may evict SymPy's cache, and counts against the step budget."""
        self.calls += 1
        self.op_calls += 1
        if self.op_calls > OP_ID_BUDGET:
            raise StepBudget()
        if self.op_calls in self.evict_at:
            from sympy.core.cache import clear_cache  # pylint: disable=import-outside-toplevel
            clear_cache()
            self.evicted += 1
        if self.op_calls == self.interrupt_at:
            self.interrupted += 1
            raise InjectedInterrupt()

    def virtual_id(self, obj) -> int:
        self.tick()
        rid = id(obj)
        v = self.table.get(rid)
        if v is None:
            if self.reuse and self.free:
                v = self.free.pop()
                self.reused += 1
            else:
                h = hashlib.sha256(f"{self.idseed}/{self.counter}".encode()).digest()
                v = int.from_bytes(h[:5], "big") | 1
                self.counter += 1
            self._remember(obj, rid, v)
        return v


class OpTimeout(Exception):
    pass


class StepBudget(Exception):
    pass


class InjectedInterrupt(BaseException):
    """Stands for KeyboardInterrupt / an alarm-driven timeout arriving at an arbitrary instant of
    an evaluation. (BaseException: `except Exception` in the library must not swallow it.)"""


def _tb_cycle(tail: bool = False) -> str:
    """Names the repo frames of the current exception (most frequent first) so that a
    report says which constructor re-enters itself."""
    import collections  # pylint: disable=import-outside-toplevel
    import sys  # pylint: disable=import-outside-toplevel
    import traceback  # pylint: disable=import-outside-toplevel
    frames = traceback.extract_tb(sys.exc_info()[2])
    mine = [f"{f.name}:{f.lineno}" for f in frames if "symplyphysics" in f.filename]
    if tail:
        return " <- ".join(reversed(mine[-4:]))
    return ", ".join(f"{k} x{v}" for k, v in collections.Counter(mine).most_common(5))


def _alarm(_sig, _frm):
    raise OpTimeout()


def _rat_table(tag, i, n, point):
    """n small non-zero rationals, a pure function of (tag, i, point)."""
    h = hashlib.sha256(f"val/{tag}/{i}/{point}".encode()).digest()
    out = []
    for k in range(n):
        num = h[2 * k] % 13 - 6
        if num == 0:
            num = 7
        den = h[2 * k + 1] % 4 + 1
        out.append((num, den))
    return out


class Bindings:
    """Values of every leaf at evaluation point `point` (0 or 1)."""

    def __init__(self, point, assumes, fargs):
        self.point = point
        self.assumes = assumes
        self.fargs = fargs

    def vec(self, i):
        return _rat_table("vec", i, 3, self.point)

    def scalar(self, name):
        # name: "t" or "s<i>"
        (num, den), = _rat_table("sc", name, 1, self.point)
        if name != "t":
            a = self.assumes[int(name[1:])] if int(name[1:]) < len(self.assumes) else "none"
            if a == "positive":
                num = abs(num)
            elif a == "negative":
                num = -abs(num)
            else:
                # symbols without a sign assumption are all negative at point 0 and all positive at
                # point 1, so that sqrt(s_i * s_j) of two such symbols is real at both points
                num = -abs(num) if self.point == 0 else abs(num)
        return (num, den)

    def vf_coeffs(self, j):
        # F_j(x1[, x2]) = c0 + c1 x1 + c2 x1^2 + c3 x2 + c4 x1 x2, vector coefficients
        return [_rat_table("vfc", f"{j}/{k}", 3, self.point) for k in range(5)]

    def sf_coeffs(self):
        return _rat_table("sfc", 0, 4, self.point)


class Domain:
    """Number domain: 'mp' (mpmath, everything numeric) or 'sym' (sympy exact, with the
    names in `symbolic` kept as plain real symbols)."""

    def __init__(self, kind, bind: Bindings, symbolic=(), dps: int = DPS):
        self.kind = kind
        self.bind = bind
        self.symbolic = frozenset(symbolic)
        self.dps = dps
        if kind == "mp":
            import mpmath  # pylint: disable=import-outside-toplevel
            self.mp = mpmath.mp
            self.mp.dps = dps
        else:
            import sympy  # pylint: disable=import-outside-toplevel
            self.sp = sympy

    def rat(self, num, den=1):
        if self.kind == "mp":
            return self.mp.mpf(num) / den
        return self.sp.Rational(num, den)

    def sqrt(self, x):
        return self.mp.sqrt(x) if self.kind == "mp" else self.sp.sqrt(x)

    def sign(self, x):
        return self.mp.sign(x) if self.kind == "mp" else self.sp.sign(x)

    def absv(self, x):
        return abs(x) if self.kind == "mp" else self.sp.Abs(x)

    def var(self, name):
        if self.kind == "sym" and name in self.symbolic:
            return self.sp.Symbol("x_" + name, real=True)
        return self.rat(*self.bind.scalar(name))

    def vec(self, i):
        return tuple(self.rat(*c) for c in self.bind.vec(i))

    def vfunc(self, j, args):
        c = [tuple(self.rat(*x) for x in cv) for cv in self.bind.vf_coeffs(j)]
        x1 = args[0]
        x2 = args[1] if len(args) > 1 else self.rat(0)
        return tuple(c[0][k] + c[1][k] * x1 + c[2][k] * x1 * x1 + c[3][k] * x2 + c[4][k] * x1 * x2 for k in range(3))

    def sfunc(self, x):
        d = [self.rat(*q) for q in self.bind.sf_coeffs()]
        return d[0] + d[1] * x + d[2] * x * x + d[3] * x * x * x


def _dot(a, b):
    return a[0] * b[0] + a[1] * b[1] + a[2] * b[2]


def _cross(a, b):
    return (a[1] * b[2] - a[2] * b[1], a[2] * b[0] - a[0] * b[2], a[0] * b[1] - a[1] * b[0])


def _applied_args(fargs_j, alt):
    """The argument tuple a vector function is applied to at one use. alt=0: its usual arguments;
    alt=1/2: the same function at another point (t replaced by s0 / by the constant 1/2)."""
    if not alt:
        return list(fargs_j)
    rep = {1: "s0", 2: "q:1/2", 3: "q:-1/1", 4: "q:-2/1"}.get(alt, "q:1/2")
    if rep == "s0" and "s0" in fargs_j:
        rep = "q:1/2"  # never the same variable twice (documented NotImplemented)
    return [rep if a == "t" else a for a in fargs_j]


def ref_eval(ast, dom: Domain):
    """Reference model: value of a model AST. Vectors are 3-tuples."""
    tag = ast[0]
    if tag == "v":
        return dom.vec(ast[1])
    if tag == "vf":
        names = _applied_args(dom.bind.fargs[ast[1]], ast[2] if len(ast) > 2 else 0)
        args = [dom.rat(0) if a == "0" else (dom.rat(*map(int, a[2:].split("/"))) if a.startswith("q:") else dom.var(a)) for a in names]
        return dom.vfunc(ast[1], args)
    if tag == "vzero":
        z = dom.rat(0)
        return (z, z, z)
    if tag == "vadd":
        vals = [ref_eval(a, dom) for a in ast[1:]]
        return tuple(sum((v[k] for v in vals[1:]), vals[0][k]) for k in range(3))
    if tag == "vscale":
        k = ref_eval(ast[1], dom)
        v = ref_eval(ast[2], dom)
        return tuple(k * c for c in v)
    if tag == "vneg":
        return tuple(-c for c in ref_eval(ast[1], dom))
    if tag == "cross":
        return _cross(ref_eval(ast[1], dom), ref_eval(ast[2], dom))
    if tag == "s":
        return dom.var("s%d" % ast[1])
    if tag == "q":
        return dom.rat(ast[1], ast[2])
    if tag == "t":
        return dom.var("t")
    if tag == "sf":
        return dom.sfunc(dom.var("t"))
    if tag == "dot":
        return _dot(ref_eval(ast[1], dom), ref_eval(ast[2], dom))
    if tag == "mixed":
        return _dot(ref_eval(ast[1], dom), _cross(ref_eval(ast[2], dom), ref_eval(ast[3], dom)))
    if tag == "norm":
        v = ref_eval(ast[1], dom)
        return dom.sqrt(_dot(v, v))
    if tag == "sadd":
        return ref_eval(ast[1], dom) + ref_eval(ast[2], dom)
    if tag == "smul":
        return ref_eval(ast[1], dom) * ref_eval(ast[2], dom)
    if tag == "spow":
        return ref_eval(ast[1], dom)**ast[2]
    if tag == "sneg":
        return -ref_eval(ast[1], dom)
    if tag == "sinv":
        return 1 / ref_eval(ast[1], dom)
    if tag == "ssqrt":
        return dom.sqrt(ref_eval(ast[1], dom))
    raise ValueError(f"bad ast tag {tag}")


class Unknown(Exception):
    pass


class World:
    """Library objects of the current epoch + reverse maps used by the output evaluator."""

    def __init__(self):
        self.vecs: dict[int, object] = {}
        self.scalars: dict[str, object] = {}
        self.vfuncs: dict[int, object] = {}
        self.sfunc = None
        self.vec_index: dict[int, int] = {}  # real id -> model index (all epochs)
        self.scalar_name: dict[str, str] = {}  # sympy internal name -> model name
        self.vfunc_index: dict[str, int] = {}  # FUN name -> model index
        self.sfunc_names: set[str] = set()
        self.keep: list = []
        self.assumes: list = []
        self.fargs: list = []


def out_eval(node, dom: Domain, world: World):
    """Independent evaluator of the library's output tree. Returns scalar or 3-tuple."""
    import sympy as sp  # pylint: disable=import-outside-toplevel
    vm = _STATE["vm"]
    if isinstance(node, vm.VectorSymbol):
        i = world.vec_index.get(id(node))
        if i is None:
            raise Unknown("foreign vector symbol")
        return dom.vec(i)
    if isinstance(node, sp.Symbol):
        name = world.scalar_name.get(node.name)
        if name is None:
            raise Unknown(f"foreign symbol {node.name}")
        return dom.var(name)
    if isinstance(node, sp.Integer):
        return dom.rat(int(node))
    if isinstance(node, sp.Rational):
        return dom.rat(int(node.p), int(node.q))
    if isinstance(node, sp.Add):
        vals = [out_eval(a, dom, world) for a in node.args]
        vecs = [v for v in vals if isinstance(v, tuple)]
        if not vecs:
            r = vals[0]
            for v in vals[1:]:
                r = r + v
            return r
        for a, v in zip(node.args, vals):
            if not isinstance(v, tuple) and a != 0:
                raise Unknown("scalar added to vector")
        return tuple(sum((v[k] for v in vecs[1:]), vecs[0][k]) for k in range(3))
    if isinstance(node, sp.Mul):
        vals = [out_eval(a, dom, world) for a in node.args]
        vecs = [v for v in vals if isinstance(v, tuple)]
        if len(vecs) > 1:
            raise Unknown("product of vectors")
        k = dom.rat(1)
        for v in vals:
            if not isinstance(v, tuple):
                k = k * v
        if vecs:
            return tuple(k * c for c in vecs[0])
        return k
    if isinstance(node, sp.Pow):
        b = out_eval(node.base, dom, world)
        e = node.exp
        if isinstance(b, tuple):
            raise Unknown("power of vector")
        if isinstance(e, sp.Integer):
            return b**int(e)
        if isinstance(e, sp.Rational):
            if dom.kind == "mp":
                return dom.mp.power(b, dom.mp.mpf(int(e.p)) / int(e.q))
            return b**sp.Rational(int(e.p), int(e.q))
        raise Unknown("symbolic exponent")
    if isinstance(node, sp.Abs):
        return dom.absv(out_eval(node.args[0], dom, world))
    if isinstance(node, sp.sign):
        return dom.sign(out_eval(node.args[0], dom, world))
    if isinstance(node, vm.VectorDot):
        return _dot(_vec(out_eval(node.args[0], dom, world), dom), _vec(out_eval(node.args[1], dom, world), dom))
    if isinstance(node, vm.VectorCross):
        return _cross(_vec(out_eval(node.args[0], dom, world), dom), _vec(out_eval(node.args[1], dom, world), dom))
    if isinstance(node, vm.VectorMixedProduct):
        a, b, c = (_vec(out_eval(x, dom, world), dom) for x in node.args)
        return _dot(a, _cross(b, c))
    if isinstance(node, vm.VectorNorm):
        v = _vec(out_eval(node.args[0], dom, world), dom)
        return dom.sqrt(_dot(v, v))
    if isinstance(node, vm.AppliedVectorFunction):
        j = world.vfunc_index.get(type(node).__name__)
        if j is None:
            raise Unknown("foreign vector function")
        args = [out_eval(a, dom, world) for a in node.args]
        return dom.vfunc(j, args)
    if isinstance(node, sp.Derivative):  # includes VectorDerivative
        names = set()
        for var, _cnt in node.variable_count:
            if not isinstance(var, sp.Symbol) or var.name not in world.scalar_name:
                raise Unknown("derivative w.r.t. non-symbol")
            names.add(world.scalar_name[var.name])
        inner_dom = Domain("sym", dom.bind, dom.symbolic | names)
        inner = out_eval(node.expr, inner_dom, world)

        def d(x):
            for var, cnt in node.variable_count:
                x = sp.diff(x, inner_dom.var(world.scalar_name[var.name]), int(cnt))
            return x

        res = tuple(d(c) for c in inner) if isinstance(inner, tuple) else d(inner)
        return _lower(res, inner_dom, dom, names - dom.symbolic)
    if isinstance(node, sp.core.function.AppliedUndef):
        if type(node).__name__ in world.sfunc_names:
            return dom.sfunc(out_eval(node.args[0], dom, world))
        raise Unknown("foreign function")
    if isinstance(node, sp.Float):
        raise Unknown("float in output")
    raise Unknown(f"node {type(node).__name__}")


def _vec(v, dom):
    if isinstance(v, tuple):
        return v
    # the library writes the zero vector as the scalar 0
    if v == 0:
        z = dom.rat(0)
        return (z, z, z)
    raise Unknown("scalar where vector expected")


def _lower(res, inner_dom: Domain, dom: Domain, names):
    """Brings a 'sym' result back into `dom`: substitutes the values of `names`."""
    import sympy as sp  # pylint: disable=import-outside-toplevel
    sub = {inner_dom.var(n): sp.Rational(*inner_dom.bind.scalar(n)) for n in names}

    def one(x):
        x = sp.sympify(x).subs(sub)
        if dom.kind == "sym":
            return x
        return _to_mp(x, dom)

    return tuple(one(c) for c in res) if isinstance(res, tuple) else one(res)


def _to_mp(x, dom):
    import sympy as sp  # pylint: disable=import-outside-toplevel
    v = sp.N(x, dom.dps + 10)
    re, im = v.as_real_imag()
    if not (re.is_Number and im.is_Number):
        raise Unknown(f"reference did not become numeric: {x}")
    r = dom.mp.mpf(str(re))
    if im != 0:
        return dom.mp.mpc(r, dom.mp.mpf(str(im)))
    return r


def _err(lo, hi):
    """Rounding-error estimate of a value: difference between its 60- and 120-digit evaluations."""
    if isinstance(lo, tuple) and isinstance(hi, tuple):
        return max(_err(x, y) for x, y in zip(lo, hi))
    if isinstance(lo, tuple) or isinstance(hi, tuple):
        return 0
    return abs(lo - hi)


def _close(a, b, mp, slack=0):
    if isinstance(a, tuple) != isinstance(b, tuple):
        # library may return the scalar 0 for the zero vector
        if isinstance(a, tuple) and b == 0:
            b = (b, b, b)
        elif isinstance(b, tuple) and a == 0:
            a = (a, a, a)
        else:
            return False
    if isinstance(a, tuple):
        return all(_close(x, y, mp, slack) for x, y in zip(a, b))
    scale = max(1, abs(a), abs(b))
    return abs(a - b) <= TOL * scale + slack


def _finite(v, mp):
    if isinstance(v, tuple):
        return all(_finite(c, mp) for c in v)
    return bool(mp.isfinite(v))


def _fmt_val(v):
    import mpmath  # pylint: disable=import-outside-toplevel
    if isinstance(v, tuple):
        return [_fmt_val(c) for c in v]
    return mpmath.nstr(v, 25)


def fmt(node, world: World) -> str:
    """Structural string of a library expression with model names (operand order kept)."""
    import sympy as sp  # pylint: disable=import-outside-toplevel
    vm = _STATE["vm"]
    if isinstance(node, vm.VectorSymbol):
        return f"v{world.vec_index.get(id(node), '?')}"
    if isinstance(node, sp.Symbol):
        return world.scalar_name.get(node.name, node.name)
    if isinstance(node, (sp.Integer, sp.Rational)):
        return str(node)
    if isinstance(node, vm.AppliedVectorFunction):
        return f"F{world.vfunc_index.get(type(node).__name__, '?')}(" + ",".join(fmt(a, world) for a in node.args) + ")"
    if isinstance(node, sp.core.function.AppliedUndef):
        return "g(" + ",".join(fmt(a, world) for a in node.args) + ")"
    if isinstance(node, sp.Basic):
        return type(node).__name__ + "(" + ",".join(fmt(a, world) for a in node.args) + ")"
    if isinstance(node, (tuple, sp.Tuple)):
        return "(" + ",".join(fmt(a, world) for a in node) + ")"
    return repr(node)


# ----------------------------------------------------------------------------- building


def _build(ast, world: World, ev):
    """Builds the library expression for a model AST. `ev` is None (default evaluation) or
    False (constructors get evaluate=False)."""
    import sympy as sp  # pylint: disable=import-outside-toplevel
    vm = _STATE["vm"]
    kw = {} if ev is None else {"evaluate": False}
    tag = ast[0]
    if tag == "v":
        return _get_vec(world, ast[1])
    if tag == "vf":
        f = world.vfuncs[ast[1]]
        names = _applied_args(world.fargs[ast[1]], ast[2] if len(ast) > 2 else 0)
        return f(*[sp.S.Zero if a == "0" else (sp.Rational(*map(int, a[2:].split("/"))) if a.startswith("q:") else world.scalars[a]) for a in names])
    if tag == "vzero":
        return sp.S.Zero
    if tag == "vadd":
        r = _build(ast[1], world, ev)
        for a in ast[2:]:
            r = r + _build(a, world, ev)
        return r
    if tag == "vscale":
        k = _build(ast[1], world, ev)
        v = _build(ast[2], world, ev)
        return k * v if ast[3] == "l" else v * k
    if tag == "vneg":
        return -_build(ast[1], world, ev)
    if tag == "cross":
        return vm.VectorCross(_build(ast[1], world, ev), _build(ast[2], world, ev), **kw)
    if tag == "s":
        return world.scalars["s%d" % ast[1]]
    if tag == "q":
        return sp.Rational(ast[1], ast[2])
    if tag == "t":
        return world.scalars["t"]
    if tag == "sf":
        return world.sfunc(world.scalars["t"])
    if tag == "dot":
        return vm.VectorDot(_build(ast[1], world, ev), _build(ast[2], world, ev), **kw)
    if tag == "mixed":
        return vm.VectorMixedProduct(_build(ast[1], world, ev), _build(ast[2], world, ev), _build(ast[3], world, ev), **kw)
    if tag == "norm":
        return vm.VectorNorm(_build(ast[1], world, ev), **kw)
    if tag == "sadd":
        return _build(ast[1], world, ev) + _build(ast[2], world, ev)
    if tag == "smul":
        return _build(ast[1], world, ev) * _build(ast[2], world, ev)
    if tag == "spow":
        return _build(ast[1], world, ev)**ast[2]
    if tag == "sneg":
        return -_build(ast[1], world, ev)
    if tag == "sinv":
        return 1 / _build(ast[1], world, ev)
    if tag == "ssqrt":
        return sp.sqrt(_build(ast[1], world, ev))
    raise ValueError(tag)


def _get_vec(world: World, i: int):
    v = world.vecs.get(i)
    if v is None:
        v = _new_vec(world, i, None)
    return v


def _new_vec(world: World, i: int, vid):
    vm = _STATE["vm"]
    names = getattr(world, "names", None) or []
    v = vm.VectorSymbol(names[i] if i < len(names) else f"v{i}")
    if vid is not None:
        _STATE["ids"].assign(v, vid)
    world.vecs[i] = v
    world.vec_index[id(v)] = i
    world.keep.append(v)
    return v


def _fresh(world: World, op: dict) -> None:
    """New epoch: fresh library objects for every model leaf, created in the op's order."""
    import symplyphysics as sx  # pylint: disable=import-outside-toplevel
    from symplyphysics import Function  # pylint: disable=import-outside-toplevel
    vm = _STATE["vm"]
    world.vecs = {}
    world.assumes = list(op.get("assume", []))
    world.fargs = [list(a) for a in op.get("fargs", [])]
    vids = op.get("vids") or []
    world.names = list(op.get("names") or [])
    junk = op.get("junk")
    if junk:
        # the session already holds many vector symbols with one display name
        for _ in range(int(junk["k"])):
            world.keep.append(vm.VectorSymbol(junk["name"]))
    for pos, i in enumerate(op.get("order", [])):
        if op.get("thread_each"):
            # every vector symbol of this epoch is created in a thread of its own (joined at once)
            import threading  # pylint: disable=import-outside-toplevel
            th = threading.Thread(target=_new_vec, args=(world, i, vids[pos] if pos < len(vids) else None))
            th.start()
            th.join()
        else:
            _new_vec(world, i, vids[pos] if pos < len(vids) else None)
    world.scalars = {}
    ns = len(world.assumes)
    sorder = list(op.get("sorder", range(ns)))
    for i in sorder + [i for i in range(ns) if i not in sorder]:
        a = world.assumes[i]
        kw = {"none": {}, "real": {"real": True}, "positive": {"positive": True}, "negative": {"negative": True}}[a]
        s = sx.Symbol(f"s{i}", **kw)
        world.scalars[f"s{i}"] = s
        world.scalar_name[s.name] = f"s{i}"
    # a vector function may name s0 as its second argument
    if "s0" not in world.scalars:
        s = sx.Symbol("s0", real=True)
        world.scalars["s0"] = s
        world.scalar_name[s.name] = "s0"
    t = sx.Symbol("t", real=True)
    world.scalars["t"] = t
    world.scalar_name[t.name] = "t"
    world.vfuncs = {}
    fdecl = op.get("fdecl") or []
    for j, _args in enumerate(world.fargs):
        fn = op.get("fnames")
        decl = fdecl[j] if j < len(fdecl) else None
        if decl == "same":
            decl = [a for a in _args if a != "0"] if "0" not in _args else None
        if decl and len(decl) != len(_args):
            decl = None  # nargs is derived from the declared signature: arity must match the application
        declared = None if not decl else tuple(world.scalars[a] for a in decl)
        f = vm.VectorFunction(fn[j] if fn and j < len(fn) else f"F{j}", declared)
        world.vfuncs[j] = f
        world.vfunc_index[f.name] = j
    g = Function("g")
    world.sfunc = g
    world.sfunc_names.add(g.name)


def _needs_world(world: World, ast) -> None:
    """Makes a lone build/diff op executable (for minimised replays): creates what the AST
    refers to if no `fresh` op did."""
    def walk(a, acc):
        if isinstance(a, list):
            if a and a[0] == "vf":
                acc["nf"] = max(acc["nf"], a[1] + 1)
            if a and a[0] == "s":
                acc["ns"] = max(acc["ns"], a[1] + 1)
            for x in a[1:]:
                walk(x, acc)
    acc = {"nf": 0, "ns": 0}
    walk(ast, acc)
    if "t" not in world.scalars or len(world.vfuncs) < acc["nf"] or any(f"s{i}" not in world.scalars for i in range(acc["ns"])):
        _fresh(world, {"order": [], "vids": [], "assume": (world.assumes + ["none"] * acc["ns"])[:max(acc["ns"], len(world.assumes))], "fargs": (world.fargs + [["t"]] * acc["nf"])[:max(acc["nf"], len(world.fargs))]})


class _Baton:
    """Deterministic scheduler for real threads: exactly one worker runs at a time; at every line
    event inside the vectors package a global counter advances and, at the counts listed in the
    schedule, the running thread hands the baton to the next unfinished one."""

    def __init__(self, n: int, switch_at, files):
        import threading  # pylint: disable=import-outside-toplevel
        self.sems = [threading.Semaphore(0) for _ in range(n)]
        self.done = [False] * n
        self.count = 0
        self.switches = 0
        self.switch_at = set(switch_at)
        self.files = files
        self.local = threading.local()

    def tracer(self, frame, event, arg):  # global trace function of a worker thread
        if event == "call" and frame.f_code.co_filename in self.files:
            return self.line
        return None

    def line(self, frame, event, arg):
        if event == "line":
            self.count += 1
            if self.count in self.switch_at:
                self.yield_to_next()
        return self.line

    def yield_to_next(self) -> None:
        me = self.local.idx
        n = len(self.sems)
        for k in range(1, n + 1):
            j = (me + k) % n
            if j != me and not self.done[j]:
                self.switches += 1
                self.sems[j].release()
                self.sems[me].acquire()
                return

    def finish(self) -> None:
        me = self.local.idx
        self.done[me] = True
        for k in range(1, len(self.sems) + 1):
            j = (me + k) % len(self.sems)
            if not self.done[j]:
                self.sems[j].release()
                return


def _concurrent(op: dict, world: World, ids):
    import sys  # pylint: disable=import-outside-toplevel
    import threading  # pylint: disable=import-outside-toplevel
    import mpmath  # pylint: disable=import-outside-toplevel
    import symplyphysics.core.experimental.miscellaneous as misc  # pylint: disable=import-outside-toplevel
    vm = _STATE["vm"]
    asts = op["asts"]
    for a_ in asts:
        _needs_world(world, a_)
        _touch_leaves(a_, world)
    ids.begin_op(None)
    baton = _Baton(len(asts), op.get("switch", []), {vm.__file__, misc.__file__})
    results: list = [None] * len(asts)
    errors: list = [None] * len(asts)

    def work(i):
        baton.local.idx = i
        baton.sems[i].acquire()
        sys.settrace(baton.tracer)
        try:
            results[i] = _build(asts[i], world, None)
        except RecursionError:
            errors[i] = ("nontermination", "RecursionError in a worker thread; cycle: " + _tb_cycle())
        except StepBudget:
            errors[i] = ("budget", "")
        except Exception as e:  # pylint: disable=broad-except
            errors[i] = ("exception", f"{type(e).__name__}: {str(e)[:160]}; at: " + _tb_cycle(tail=True))
        finally:
            sys.settrace(None)
            baton.finish()

    threads = [threading.Thread(target=work, args=(i,), daemon=True) for i in range(len(asts))]
    for t in threads:
        t.start()
    baton.sems[0].release()
    for t in threads:
        t.join(3 * OP_WALL_S)
    info = {"switches": baton.switches, "inconclusive": []}
    if any(t.is_alive() for t in threads):
        info["inconclusive"].append("concurrent-wall-timeout")
        return "wall", None, info
    outs = []
    for i, a_ in enumerate(asts):
        if errors[i] is not None:
            if errors[i][0] == "budget":
                info["inconclusive"].append("op-step-budget")
                continue
            return errors[i][0], {"oracle": errors[i][0], "detail": f"thread {i} of {len(asts)} (switch points {sorted(baton.switch_at)[:8]}): {errors[i][1]}"}, info
        outs.append(fmt(results[i], world))
        try:
            for point in (0, 1):
                bind = Bindings(point, world.assumes, world.fargs)
                lo = None
                for dps in (DPS, 2 * DPS):
                    dom = Domain("mp", bind, dps=dps)
                    ref, got = ref_eval(a_, dom), out_eval(results[i], dom, world)
                    if dps == DPS:
                        lo = (ref, got)
                slack = 1000 * (_err(lo[0], ref) + _err(lo[1], got))
                if _finite(ref, mpmath.mp) and not _close(ref, got, mpmath.mp, slack):
                    return "value", {"oracle": "value", "detail": f"thread {i} of {len(asts)} evaluated {fmt(results[i], world)[:200]}: reference {_fmt_val(ref)} != library {_fmt_val(got)} (switch points {sorted(baton.switch_at)[:8]}, {baton.switches} switches)"}, info
        except Unknown as u:
            info["inconclusive"].append(f"unknown:{str(u)[:60]}")
    return hashlib.sha256("|".join(outs).encode()).hexdigest()[:16], None, info


def _touch_leaves(ast, world: World) -> None:
    """Creates every leaf object of an AST up front (creation is not part of the concurrent phase)."""
    if isinstance(ast, list) and ast:
        if ast[0] == "v":
            _get_vec(world, ast[1])
        for x in ast[1:]:
            _touch_leaves(x, world)


SESSION_TEMPLATES = [
    lambda p, a: ["dot", ["v", p[0]], ["v", a]],
    lambda p, a: ["dot", ["cross", ["v", p[0]], ["v", a]], ["v", p[1]]],
    lambda p, a: ["mixed", ["v", a], ["v", p[0]], ["v", p[1]]],
    lambda p, a: ["cross", ["v", a], ["vadd", ["v", p[0]], ["v", a]]],
    lambda p, a: ["dot", ["vadd", ["v", a], ["v", p[2]]], ["vadd", ["v", a], ["v", p[2]]]],
    lambda p, a: ["cross", ["cross", ["v", p[0]], ["v", a]], ["v", p[2]]],
    lambda p, a: ["norm", ["vscale", ["q", -3, 2], ["v", a], "l"]],
]


def _session(op: dict, world: World, ids) -> tuple[str, dict | None]:
    import mpmath  # pylint: disable=import-outside-toplevel
    _needs_world(world, ["v", 0])
    persistent = [0, 1, 2]
    for i in persistent:
        _get_vec(world, i)
    bind = Bindings(0, world.assumes, world.fargs)
    dom = Domain("mp", bind, dps=DPS)
    h = hashlib.sha256()
    for it in range(int(op["n"])):
        idx = 100 + it % 97
        _new_vec(world, idx, None)
        ast = SESSION_TEMPLATES[(it + int(op.get("rot", 0))) % len(SESSION_TEMPLATES)](persistent, idx)
        ids.begin_op(None)
        try:
            result = _build(ast, world, None)
        except RecursionError:
            return "violation", {"oracle": "nontermination", "detail": f"RecursionError at session step {it}; cycle: " + _tb_cycle()}
        except Exception as e:  # pylint: disable=broad-except
            return "violation", {"oracle": "exception", "detail": f"session step {it}: {type(e).__name__}: {str(e)[:160]}"}
        try:
            ref = ref_eval(ast, dom)
            got = out_eval(result, dom, world)
        except Unknown:
            continue
        if not _close(ref, got, mpmath.mp, 1e-40):
            return "violation", {"oracle": "value", "detail": f"session step {it} ({fmt(result, world)[:120]}): reference {_fmt_val(ref)} != library {_fmt_val(got)}", "session_step": it}
        h.update(fmt(result, world).encode())
    return h.hexdigest()[:16], None


def _diff_var_names(op: dict, world: World) -> list[str]:
    if op.get("vars"):
        return [v if v in world.scalars else "t" for v in op["vars"]]
    v = op["var"] if op.get("var") in world.scalars else "t"
    return [v] * int(op.get("order", 1))


def _diff_vars(op: dict, world: World) -> list:
    return [world.scalars[n] for n in _diff_var_names(op, world)]


def child_run(job: dict) -> dict:
    import sympy as sp  # pylint: disable=import-outside-toplevel
    from sympy.core.cache import clear_cache  # pylint: disable=import-outside-toplevel
    from symplyphysics.core.symbols import id_generator  # pylint: disable=import-outside-toplevel
    vm = _STATE["vm"]
    ids: VirtualIds = _STATE["ids"]
    ids.reset(int(job.get("idseed", 0)), bool(job.get("reuse_ids", False)))
    hits = _STATE["hits"]
    signal.signal(signal.SIGALRM, _alarm)
    world = World()
    events = []
    faults = {"clear_cache": 0, "evict_mid_op": 0, "bump": 0, "epoch": 0}
    inconclusive = []
    violation = None
    ref_cache: dict[str, object] = {}
    shapes = set()
    steps = 0
    for step, op in enumerate(job["ops"]):
        kind = op["op"]
        outcome = None
        steps += 1
        if kind == "clear_cache":
            clear_cache()
            if ids.reuse:
                import gc  # pylint: disable=import-outside-toplevel
                gc.collect()
            faults["clear_cache"] += 1
        elif kind == "bump":
            from .observe import COUNTERS  # pylint: disable=import-outside-toplevel
            if COUNTERS.jump(op["prefix"], op["to"]):  # forward only
                faults["bump"] += 1
        elif kind == "fresh" and op.get("thread"):
            # the symbols of this epoch are created in another (joined) thread of the process
            import threading  # pylint: disable=import-outside-toplevel
            th = threading.Thread(target=_fresh, args=(world, op))
            th.start()
            th.join()
            faults["created_in_other_thread"] = faults.get("created_in_other_thread", 0) + 1
            faults["epoch"] += 1
        elif kind == "fresh":
            _fresh(world, op)
            faults["epoch"] += 1
        elif kind == "concurrent":
            # several caller threads evaluate expressions at the same time; which thread runs is decided
            # by the schedule alone (baton passing, pre-emption at line events inside the vectors package)
            outcome, v_, inc_ = _concurrent(op, world, ids)
            faults["thread_switch"] = faults.get("thread_switch", 0) + inc_.get("switches", 0)
            faults["concurrent_op"] = faults.get("concurrent_op", 0) + 1
            inconclusive.extend(inc_.get("inconclusive", []))
            for a_ in op["asts"]:
                shapes.add(_shape(a_))
            if v_:
                violation = dict(v_, step=step, op=op)
        elif kind == "session":
            # a long session: thousands of small products of a few long-lived symbols with ever new ones
            # (state carried between calls: caches, registries, rank tables, ...)
            outcome, v_ = _session(op, world, ids)
            faults["session_steps"] = faults.get("session_steps", 0) + int(op["n"])
            if v_:
                violation = dict(v_, step=step, op=op)
        elif kind in ("build", "diff"):
            ast = op["ast"]
            _needs_world(world, ast)
            ids.begin_op(op.get("evict"), op.get("interrupt_at", 0))
            ev_before = ids.evicted
            result = None
            err = None
            signal.setitimer(signal.ITIMER_REAL, OP_WALL_S)
            try:
                if kind == "build":
                    mode = op.get("mode", "auto")
                    if mode == "auto":
                        result = _build(ast, world, None)
                    elif mode == "uneval_doit":
                        result = sp.sympify(_build(ast, world, False)).doit()
                    else:
                        with sp.evaluate(False):
                            raw = _build(ast, world, None)
                        result = sp.sympify(raw).doit()
                else:
                    expr = sp.sympify(_build(ast, world, False if op.get("mode") == "uneval" else None))
                    dvars = _diff_vars(op, world)
                    if op.get("via") == "vector_diff" and ast[0] in VECTOR_TAGS and expr != 0:
                        result = vm.vector_diff(expr, *dvars)
                    elif op.get("via") == "derivative_doit" and ast[0] in VECTOR_TAGS and expr != 0:
                        result = vm.VectorDerivative(expr, *dvars).doit()
                    else:
                        result = expr.diff(*dvars)
            except InjectedInterrupt:
                # the operation was interrupted by the schedule: no verdict about it; what matters is
                # that every later operation in this process is still right
                err = ("interrupted", "")
                faults["interrupt"] = faults.get("interrupt", 0) + 1
            except OpTimeout:
                err = ("wall", "")
            except StepBudget:
                # a big multilinear expansion is legitimately expensive; the logical budget only bounds
                # the run, it is not a verdict (every non-termination seen so far re-enters a constructor
                # and ends in RecursionError, which is deterministic and is a verdict)
                err = ("budget", "")
            except RecursionError:
                err = ("nontermination", "RecursionError; cycle: " + _tb_cycle())
            except Exception as e:  # pylint: disable=broad-except
                err = ("exception", f"{type(e).__name__}: {str(e)[:200]}; at: " + _tb_cycle(tail=True))
            finally:
                signal.setitimer(signal.ITIMER_REAL, 0)
                ids.begin_op(None)
            faults["evict_mid_op"] += ids.evicted - ev_before
            if err is not None and err[0] == "interrupted":
                outcome = "interrupted"
            elif err is not None and err[0] in ("wall", "budget"):
                inconclusive.append("op-wall-timeout" if err[0] == "wall" else "op-step-budget")
                outcome = err[0]
            elif err is not None:
                violation = {"oracle": err[0], "detail": err[1], "step": step, "op": op}
                outcome = err[0]
            else:
                outcome = fmt(result, world)
                shapes.add(_shape(ast))
                # compare with the reference at two points
                try:
                    signal.setitimer(signal.ITIMER_REAL, 4 * OP_WALL_S)
                    for point in (0, 1):
                        bind = Bindings(point, world.assumes, world.fargs)
                        # everything is evaluated at 60 and at 120 digits: the difference estimates the
                        # rounding error of huge-factor-times-exact-zero shapes (catastrophic cancellation),
                        # which must not be mistaken for a wrong value
                        lo_ref = lo_got = None
                        for dps in (DPS, 2 * DPS):
                          domA = Domain("mp", bind, dps=dps)
                          key = core.digest([kind, ast, op.get("var"), op.get("order"), op.get("vars"), point, world.assumes, world.fargs, dps])
                          if key not in ref_cache:
                            if kind == "build":
                                ref_cache[key] = ref_eval(ast, domA)
                            else:
                                names = _diff_var_names(op, world)
                                domB = Domain("sym", bind, set(names), dps=dps)
                                sym = ref_eval(ast, domB)
                                xs = [domB.var(nm) for nm in names]
                                dd = tuple(sp.diff(c, *xs) for c in sym) if isinstance(sym, tuple) else sp.diff(sym, *xs)
                                ref_cache[key] = _lower(dd, domB, domA, set(names))
                          ref = ref_cache[key]
                          got = out_eval(result, domA, world)
                          if dps == DPS:
                              lo_ref, lo_got = ref, got
                        slack = 1000 * (_err(lo_ref, ref) + _err(lo_got, got))
                        if not _finite(ref, domA.mp):
                            # e.g. d/dt norm(w(t)) where w(t) is identically zero: the reference
                            # itself is undefined there, nothing can be demanded
                            inconclusive.append("reference-singular")
                            break
                        if not _close(ref, got, domA.mp, slack):
                            violation = {"oracle": "value", "detail": f"point {point}: reference {_fmt_val(ref)} != library {_fmt_val(got)}", "step": step, "op": op, "library_result": outcome[:600]}
                            break
                except Unknown as u:
                    inconclusive.append(f"unknown:{str(u)[:60]}")
                except OpTimeout:
                    inconclusive.append("oracle-timeout")
                except ZeroDivisionError:
                    inconclusive.append("oracle-zerodiv")
                finally:
                    signal.setitimer(signal.ITIMER_REAL, 0)
        else:
            raise ValueError(f"unknown op {kind}")
        events.append([step, kind, hashlib.sha256((outcome or "").encode()).hexdigest()[:16]])
        if violation:
            break
    faults["address_reused"] = ids.reused
    if _cache_really_off():
        faults["sympy_cache_off_run"] = 1
    fired = faults["clear_cache"] + faults["evict_mid_op"] + faults["bump"] + (1 if faults["epoch"] > 1 else 0)
    return {
        "events": events,
        "digest": core.digest(events),
        "violation": violation,
        "faults": faults,
        "probes": {h: 1 for h in hits},
        "inconclusive": inconclusive,
        "steps": steps,
        "id_calls": ids.calls,
        "nontrivial": bool(fired) and any(e[1] in ("build", "diff", "concurrent", "session") for e in events),
        "states": sorted(shapes),
        "flag_default": bool(sp.core.parameters.global_parameters.evaluate),
        "probe_universe": _STATE["all_lines"] if str(job.get("run", "")).isdigit() and int(job["run"]) % 500 == 0 else None,
    }


def _shape(ast) -> str:
    """Shape of a model AST (tags only) -- the distinct-state measure."""
    def walk(a):
        if isinstance(a, list) and a and isinstance(a[0], str):
            return a[0] + "(" + ",".join(walk(x) for x in a[1:] if isinstance(x, list)) + ")"
        return ""
    return hashlib.sha256(walk(ast).encode()).hexdigest()[:12]


# ============================================================================ driver side


def judge(job: dict, res: dict, ctx=None) -> list[dict]:
    """Returns the violations of a finished run (each with a coarse class used during
    minimisation)."""
    st = res.get("status")
    if st == "ok":
        v = (res.get("result") or {}).get("violation")
        if v:
            return [dict(v, cls=f"C14|{v['oracle']}")]
        return []
    if st == "timeout":
        # the whole run exceeded its wall cap although every op is alarm-bounded:
        # inconclusive, never a violation
        return []
    if st == "crash":
        return [{"oracle": "nontermination", "detail": f"child died with signal {res.get('signal')}", "cls": "C14|nontermination"}]
    return []


def _subtrees(ast, path=()):
    yield path, ast
    for i, x in enumerate(ast[1:], 1):
        if isinstance(x, list) and x and isinstance(x[0], str):
            yield from _subtrees(x, path + (i,))


def _replace(ast, path, new):
    if not path:
        return new
    out = list(ast)
    out[path[0]] = _replace(ast[path[0]], path[1:], new)
    return out


def _kind(ast):
    return "V" if ast[0] in VECTOR_TAGS else "S"


def simplify(job: dict) -> list[dict]:
    """One-step simplifications of the *last* build/diff op (the failing one) and of the
    fault parameters; tried in order, first that still fails is taken."""
    ops = job["ops"]
    out = []
    for i, o in enumerate(ops):
        if o["op"] == "session" and o["n"] > 8:
            for n in (o["n"] // 2, (3 * o["n"]) // 4, o["n"] - max(1, o["n"] // 10)):
                out.append(dict(job, ops=ops[:i] + [dict(o, n=n)] + ops[i + 1:]))
    idx = max((i for i, o in enumerate(ops) if o["op"] in ("build", "diff")), default=None)
    if idx is None:
        return out
    op = ops[idx]

    def with_op(new_op):
        j = dict(job)
        j["ops"] = ops[:idx] + [new_op] + ops[idx + 1:]
        return j

    ast = op["ast"]
    seen = set()
    # (a) replace the whole AST by a subtree (only for build; diff keeps kind anyway)
    for path, sub in _subtrees(ast):
        if path and core.canon(sub) not in seen:
            seen.add(core.canon(sub))
            out.append(with_op(dict(op, ast=sub)))
    # (b) replace a subtree by one of its same-kind children, or by a leaf
    for path, sub in _subtrees(ast):
        for child in sub[1:]:
            if isinstance(child, list) and child and isinstance(child[0], str) and _kind(child) == _kind(sub):
                out.append(with_op(dict(op, ast=_replace(ast, path, child))))
        if sub[0] not in ("v", "q", "s"):
            for leaf in ([["v", 0], ["v", 1], ["v", 2], ["v", 3]] if _kind(sub) == "V" else [["q", 1, 1], ["s", 0]]):
                if sub != leaf:
                    out.append(with_op(dict(op, ast=_replace(ast, path, leaf))))
        if sub[0] == "vadd" and len(sub) > 3:
            for k in range(1, len(sub)):
                out.append(with_op(dict(op, ast=_replace(ast, path, sub[:k] + sub[k + 1:]))))
    # (c) simpler fault parameters / modes
    if op.get("interrupt_at"):
        out.append(with_op({k: v for k, v in op.items() if k != "interrupt_at"}))
    if op.get("evict"):
        out.append(with_op(dict(op, evict=[])))
        for k in range(len(op["evict"])):
            out.append(with_op(dict(op, evict=op["evict"][:k] + op["evict"][k + 1:])))
    if op["op"] == "build" and op.get("mode") != "auto":
        out.append(with_op(dict(op, mode="auto")))
    if op["op"] == "diff":
        if op.get("order", 1) > 1:
            out.append(with_op(dict(op, order=1)))
        if op.get("vars"):
            out.append(with_op({k: v for k, v in op.items() if k != "vars"}))
        if op.get("via") != "diff":
            out.append(with_op(dict(op, via="diff")))
        if op.get("mode", "auto") != "auto":
            out.append(with_op(dict(op, mode="auto")))
    if job["env"].get("cache") != 1000 or job["env"].get("hashseed") != 0:
        j = dict(job)
        j["env"] = {"hashseed": 0, "cache": 1000}
        out.append(j)
    return out[:400]


def finding_key(job: dict, violation: dict) -> str:
    if (violation.get("op") or {}).get("op") == "session":
        return f"C14|{violation.get('oracle')}|session"
    """Specific subject of a (minimised) violation: oracle kind + the failing expression."""
    op = violation.get("op") or {}
    return f"C14|{violation.get('oracle')}|{op.get('op')}|{core.canon(op.get('ast'))}"


def extra_coverage(stats, ctx) -> dict:
    uni = stats.extra.get("probe_universe") or []
    never = sorted(set(uni) - set(k for k, v in stats.probes.items() if v))
    return {
        "probe_note": "reach_probes counts, per source line of the rewrite-rule functions (sys.monitoring LINE events; '<qualname>+<offset from def>'), the runs that executed it",
        "probe_lines_total": len(uni),
        "probe_lines_never_hit": never,
    }


RULE = ("each run: 1-3 epochs of fresh symbols (creation order, simulator-assigned identities, display names incl. collisions, assumptions) x 1-4 "
        "generated expressions (size-capped model ASTs over vector/scalar symbols and functions of t) built automatically, unevaluated-then-doit, or under "
        "evaluate(False)-then-doit, and differentiated; faults: cache eviction between ops and at the k-th seam call inside an op, counter jumps, address reuse, "
        "hash seed, cache size. Non-trivial = at least one fault fired and at least one expression was judged; distinct = distinct event-log digests")
STATE_MEASURE = "distinct model-AST shapes judged (tags only)"
COMPONENTS = {
    "real": ["symplyphysics.core.experimental.vectors (all constructors, rewrite rules, derivatives)", "core.experimental.miscellaneous.sort_with_sign", "SymPy core and cache"],
    "stubbed": ["the builtin id() as seen by the vectors module (virtual identities)", "LRU eviction replaced by total eviction at scheduled instants"],
}


ASSUMPTIONS = [
    "mpmath at 60 digits and SymPy core diff/subs/N on plain polynomials are the trusted base of the oracle",
    "identity testing at two rational points per expression (a wrong polynomial identity agrees at both with negligible probability)",
    "virtual identities explore relative orders of live objects; address reuse after garbage collection is not modelled",
    "clear_cache() (total eviction) stands for LRU eviction at an arbitrary instant",
]
