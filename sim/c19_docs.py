"""C19 -- documentation generation is total, faithful, deterministic and leaves no global state.

System: `generate_laws_docs` (walk -> read -> ast patch -> exec -> render -> write) plus the
role post-processing of docs/build.py. Sphinx is not run. The simulator owns the file system
seam (`open`, `os.walk`, `Path`, `shutil` as module globals of the two build modules): output
lives in memory, listings come back in a seeded permutation, every open/read/write/close/
mkdir is a numbered fault site; the zygote's hash seed and cache size are part of the schedule.
"""
from __future__ import annotations

import ast
import hashlib
import os
import re

from . import core

PROP = "C19"
BATCH = 64
BUDGET_S = {"quick": 120, "thorough": 1800}
MAX_RUNS = {"quick": 260, "thorough": 10**9}
MIN_RUNS = {"quick": 260, "thorough": 0}  # the quick tier explores the same runs on a loaded machine (the budget only stops it beyond these)
OUT = "/simout/generated"
ENV0 = {"hashseed": 0, "cache": 1000}
ENVS = [ENV0, {"hashseed": 3, "cache": 1000}, {"hashseed": 7, "cache": 25}, {"hashseed": 11, "cache": 1000}]
SUBTREES = ["symplyphysics/laws/kinematics", "symplyphysics/laws/chemistry", "symplyphysics/definitions", "symplyphysics/laws/optics", "symplyphysics/conditions", "symplyphysics/laws/waves", "symplyphysics/laws/nuclear"]

RULE = ("systematic: full generation + role post-processing in every zygote configuration (hash seed x cache size) and under shuffled "
        "directory listings, compared byte-for-byte with the reference generation; random: sub-tree generations and page-order schedules "
        "with pre-histories (imports, counter jumps, cache evictions), repeats, stale output, and injected I/O faults (ENOSPC/EIO/EACCES at "
        "the k-th write-open / write / close / mkdir / read-open / read) followed by recovery. A run is non-trivial if a fault fired inside "
        "a generation, or the listing was permuted, or a pre-history preceded generation; distinct = distinct event-log digests")
STATE_MEASURE = "distinct (hash seed, listing-permutation seed, source tree, fault site kind, fault index, pre-history digest) tuples"
COMPONENTS = {
    "real": ["symplyphysics.docs.build/parse/patch/view", "docs/build.py process_generated_files", "symbols_role", "quantity_notation_role", "the exec of every documented module", "core.processors evaluation switches"],
    "stubbed": ["output files and directories (in-memory SimFS)", "os.walk / Path.iterdir listing order", "shutil.copyfile of index.rst"],
    "not_run": ["Sphinx HTML build", "the I/O stack below open() (short writes inside TextIOWrapper, fsync)"],
}
ASSUMPTIONS = [
    "byte equality is demanded only between generations with the same history; across different histories only the page skeleton and the meaning of formulas are compared (commutative factors may legitimately be printed in another order)",
    "under injected I/O faults the call may fail but must fail loudly; the evaluation flag right after an aborted generation is recorded as a probe only (the statement says 'once it finishes')",
    "the reference model of 'documented module' is a 15-line reimplementation from the statement (docstring with an underlined title), computed from the source tree independently of the generator",
]

# ============================================================================ reference model (pure, shared)


def is_documented(source_text: str) -> bool:
    try:
        doc = ast.get_docstring(ast.parse(source_text))
    except SyntaxError:
        return False
    if doc is None:
        return False
    lines = doc.splitlines()
    for line in lines[1:]:
        if line and (set(line) == {"="} or set(line) == {"-"}):
            return True
    return False


def _private(name: str) -> bool:
    return name.startswith(".") or name.startswith("_")


def expected_pages(source_dir: str, exclude: list[str], read=None, listdir=None, isdir=None) -> set[str]:
    """Names of the rST files a correct generator writes for `source_dir`."""
    read = read or (lambda p: open(p, encoding="utf-8").read())
    listdir = listdir or os.listdir
    isdir = isdir or os.path.isdir
    out = set()
    excluded = {os.path.normpath(os.path.join(source_dir, e)) for e in exclude}

    def visit(d):
        if _private(os.path.basename(d)) or os.path.normpath(d) in excluded:
            return
        names = sorted(listdir(d))
        parts = os.path.normpath(d).split(os.sep)
        for n in names:
            p = os.path.join(d, n)
            if isdir(p):
                continue
            if n.startswith("__") or not n.endswith(".py"):
                continue
            if is_documented(read(p)):
                out.add(".".join(parts[1:] + [n[:-3]]) + ".rst")
        init = os.path.join(d, "__init__.py")
        try:
            if is_documented(read(init)):
                out.add(".".join(parts[1:]) + ".rst")
        except OSError:
            pass
        for n in names:
            p = os.path.join(d, n)
            if isdir(p):
                visit(p)

    visit(source_dir)
    return out


def documented_members(source_text: str) -> tuple[list[str], list[str]]:
    """(public variables that have a docstring, public functions that have a docstring), in source
    order -- an independent reading of the source, not the generator's."""
    try:
        tree = ast.parse(source_text)
    except SyntaxError:
        return [], []
    data, funcs = [], []
    body = tree.body
    for i, node in enumerate(body):
        if isinstance(node, ast.FunctionDef):
            if ast.get_docstring(node) is not None and not node.name.startswith("_"):
                funcs.append(node.name)
        elif isinstance(node, ast.Assign) and len(node.targets) >= 1 and isinstance(node.targets[0], ast.Name):
            nxt = body[i + 1] if i + 1 < len(body) else None
            if isinstance(nxt, ast.Expr) and isinstance(nxt.value, ast.Constant) and isinstance(nxt.value.value, str):
                name = node.targets[0].id
                if not name.startswith("_") and name not in data:
                    data.append(name)
    return data, funcs


def check_sections(page_name: str, text: str, source_text: str, vios: list, prefix: str = "") -> None:
    data, funcs = documented_members(source_text)
    got_funcs = re.findall(r"(?m)^\.\. py:function:: (\w+)\(", text)
    got_data = re.findall(r"(?m)^\.\. py:data:: (\w+)$", text)
    if got_funcs != funcs:
        vios.append(V("faithful", f"{prefix}functions-section" + ("" if prefix else f"|{page_name}"), f"page {page_name} documents functions {got_funcs}, the source documents {funcs}").v)
    if got_data != data:
        vios.append(V("faithful", f"{prefix}data-section" + ("" if prefix else f"|{page_name}"), f"page {page_name} documents members {got_data}, the source documents {data}").v)


_MATH_BLOCK = re.compile(r"(\.\. math::\n)((?:[ \t]+\S.*\n|\n)+)")
_CODE_LINE = re.compile(r"^([ \t]*):code:`.*`[ \t]*$", re.M)


def skeleton(page: str) -> str:
    """The page with formula renderings masked (code directives and math blocks)."""
    page = _MATH_BLOCK.sub(lambda m: m.group(1) + "<math>\n", page + "\n")
    return _CODE_LINE.sub(lambda m: m.group(1) + ":code:`<code>`", page)


# ============================================================================ generator (driver side)


def _job(seed, run, env, ops, timeout=400) -> dict:
    return {"prop": PROP, "seed": seed, "run": run, "env": env, "timeout": timeout, "ops": ops}


def reference_job() -> dict:
    return _job(0, "ref", ENV0, [{"op": "generate", "src": "symplyphysics", "perm": 0, "faults": [], "check_symbols": 25, "return_pages": True}, {"op": "postprocess", "perm": 0, "faults": [], "return_pages": True}, {"op": "probe"}])


def systematic_jobs(tier, seed, ctx):
    jobs = []
    n = 0
    for env in ENVS:
        for perm in ([0, 1] if env == ENV0 else [2]):
            if env == ENV0 and perm == 0:
                continue  # that is the reference itself
            jobs.append(_job(seed, f"sys:full:{n}", env, [{"op": "generate", "src": "symplyphysics", "perm": perm * 7919 + n, "faults": [], "check_symbols": 25}, {"op": "postprocess", "perm": perm * 104729 + n, "faults": []}, {"op": "probe"}]))
            n += 1
    # repeat in one process, and generation after library use
    if tier == "thorough":
        # fault_enumeration part: every fault site of two sub-trees, once per site kind and errno class
        for src in ("symplyphysics/laws/kinematics", "symplyphysics/conditions", "symplyphysics/laws/nuclear"):
            n_pages = len(expected_pages(os.path.join(core.REPO, src), ["core"])) + 3  # the driver does not run in /repo
            for site in ("wopen", "write", "close", "mkdir", "ropen", "read"):
                for k in range(1, n_pages + (8 if site in ("ropen", "read") else 1)):
                    jobs.append(_job(seed, f"sys:enum:{src}:{site}:{k}", ENVS[(k + len(site)) % len(ENVS)], [
                        {"op": "generate", "src": src, "perm": k, "faults": [{"site": site, "k": k, "errno": ["ENOSPC", "EIO", "EACCES"][k % 3]}]},
                        {"op": "probe"},
                        {"op": "generate", "src": src, "perm": 0, "faults": [], "recover": True},
                        {"op": "postprocess", "perm": k, "faults": []},
                        {"op": "probe"}]))
    jobs.append(_job(seed, "sys:printers", ENV0, [{"op": "use_printers"}, {"op": "generate", "src": "symplyphysics", "perm": 0, "faults": []}, {"op": "postprocess", "perm": 0, "faults": []}, {"op": "probe"}]))
    jobs.append(_job(seed, "sys:locale", ENVS[1], [{"op": "generate", "src": "symplyphysics", "perm": 0, "faults": [], "locale": "ascii"}, {"op": "postprocess", "perm": 0, "faults": []}, {"op": "probe"}]))
    jobs.append(_job(seed, "sys:repeat", ENV0, [{"op": "generate", "src": "symplyphysics/laws/kinematics", "perm": 0, "faults": []}, {"op": "probe"}, {"op": "generate", "src": "symplyphysics/laws/kinematics", "perm": 5, "faults": [], "stale": True}, {"op": "postprocess", "perm": 0, "faults": []}, {"op": "probe"}]))
    return jobs


def _fault(rng, site_counts=None):
    site = rng.choice(["wopen", "wopen", "write", "write", "close", "mkdir", "ropen", "read"])
    return {"site": site, "k": rng.choice([1, 1, 2, 3, 5, 8, 13, 21, 34]), "errno": rng.choice(["ENOSPC", "EIO", "EACCES"])}


def _boundary(rng):
    return max(1, rng.choice([1, 1, 2, 5, 9]) * 10**rng.choice([2, 3, 3, 4]) - rng.choice([0, 1, 2, 3, 5]))


def generate(seed: int, run: int, tier: str) -> dict:
    rng = core.rng_for(seed, PROP, run, "gen")
    env = rng.choice(ENVS)
    style = rng.choice(["subtree_fault", "subtree_fault", "subtree_fault", "pages", "pages", "prehistory", "post_fault", "virtual", "virtual"])
    ops: list = []
    src = rng.choice(SUBTREES)
    if style == "subtree_fault":
        nf = rng.choice([1, 1, 2])
        faults = [_fault(rng) for _ in range(nf)]
        ops.append({"op": "generate", "src": src, "perm": rng.randrange(1, 10**6), "faults": faults, "stale": rng.random() < 0.3})
        ops.append({"op": "probe"})
        ops.append({"op": "generate", "src": src, "perm": rng.randrange(0, 3), "faults": [], "recover": True})
        ops.append({"op": "postprocess", "perm": rng.randrange(0, 10**6), "faults": []})
        ops.append({"op": "probe"})
    elif style == "post_fault":
        ops.append({"op": "generate", "src": src, "perm": rng.randrange(0, 10**6), "faults": []})
        ops.append({"op": "postprocess", "perm": rng.randrange(0, 10**6), "faults": [dict(_fault(rng), site=rng.choice(["wopen", "write", "close", "read", "listdir"]))]})
        ops.append({"op": "postprocess", "perm": 0, "faults": [], "recover": True, "regenerate": src})
        ops.append({"op": "probe"})
    elif style == "prehistory":
        for _ in range(rng.choice([1, 2, 4])):
            r = rng.random()
            if r < 0.4:
                ops.append({"op": "jump", "prefix": rng.choice(["SYM", "FUN", "QTY"]), "to": _boundary(rng)})
            elif r < 0.7:
                ops.append({"op": "import_tree", "src": rng.choice(SUBTREES), "n": rng.choice([3, 10])})
            else:
                ops.append({"op": "clear_cache"})
        ops.append({"op": "generate", "src": src, "perm": rng.randrange(0, 10**6), "faults": [], "check_symbols": 15})
        ops.append({"op": "postprocess", "perm": rng.randrange(0, 10**6), "faults": []})
        ops.append({"op": "probe"})
    elif style == "pages":
        # page-order schedule: drive the per-page entry points directly, interleaved with probes
        n = rng.choice([3, 6, 12])
        for _ in range(n):
            r = rng.random()
            if r < 0.12:
                ops.append({"op": "jump", "prefix": rng.choice(["SYM", "FUN"]), "to": _boundary(rng)})
            if r > 0.85:
                ops.append({"op": "clear_cache"})
            ops.append({"op": "page", "src": rng.choice(SUBTREES), "pick": rng.randrange(10**6), "faults": [_fault(rng)] if rng.random() < 0.25 else []})
            if rng.random() < 0.5:
                ops.append({"op": "probe"})
        ops.append({"op": "probe"})
    else:  # virtual source tree: documented/undocumented/private modules in shapes the real tree lacks
        r = rng.random()
        if r < 0.35:
            # a source error inside an evaluation-disabled window aborts one generation; a later
            # generation in the same process must still finish with the flag at its default
            ops.append({"op": "virtual", "vseed": rng.randrange(10**9), "perm": rng.randrange(0, 10**6), "faults": [], "broken": True})
            ops.append({"op": "probe"})
            ops.append({"op": "virtual", "vseed": rng.randrange(10**9), "perm": rng.randrange(0, 10**6), "faults": []})
        else:
            ops.append({"op": "virtual", "vseed": rng.randrange(10**9), "perm": rng.randrange(0, 10**6), "faults": [_fault(rng)] if r < 0.6 else []})
            if rng.random() < 0.5:
                ops.append({"op": "virtual", "vseed": rng.randrange(10**9), "perm": rng.randrange(0, 10**6), "faults": []})
            if rng.random() < 0.35:
                # the same layout under another source root, generated in the same process
                ops.append({"op": "virtual", "vseed": ops[-1]["vseed"], "perm": rng.randrange(0, 10**6), "faults": [], "top": "simsrc2"})
            if rng.random() < 0.3:
                ops.append({"op": "virtual", "vseed": rng.randrange(10**9), "perm": 0, "faults": [], "preimport": True, "top": rng.choice(["simsrc", "simsrc3"])})
            if rng.random() < 0.3:
                ops.append({"op": "virtual", "vseed": rng.randrange(10**9), "perm": 0, "faults": [], "bad_role": True})
            if r >= 0.6 and rng.random() < 0.6:
                # the source is edited and documentation is generated again into the same directory
                vs = ops[-1]["vseed"]
                ops.append({"op": "virtual", "vseed": vs, "edit": rng.randrange(1, 10**6), "keep_output": True, "perm": rng.randrange(0, 10**6), "faults": []})
        ops.append({"op": "probe"})
    if rng.random() < 0.2:
        ops.insert(0, {"op": "use_printers"})
    if rng.random() < 0.25:
        # the process runs under a non-UTF-8 locale (LC_ALL=C): files opened without an explicit
        # encoding would be ASCII
        for op in ops:
            if op["op"] in ("generate", "virtual"):
                op["locale"] = "ascii"
    rng2 = core.rng_for(seed, PROP, run, "gen2")
    if style in ("pages", "virtual") and rng2.random() < float(os.environ.get("VERIF_C19_NOCACHE_P", "0.1")):
        # environment fault: the generating process runs with SymPy's cache switched off (SYMPY_USE_CACHE=no);
        # only page-order schedules and synthetic trees (a sub-tree generation would take minutes without the cache)
        env = {"hashseed": env["hashseed"], "cache": 1000, "environ": {"SYMPY_USE_CACHE": "no"}}
    return _job(seed, run, env, ops)


# ============================================================================ child side

_S: dict = {}


def zygote_init() -> None:
    import importlib.util  # pylint: disable=import-outside-toplevel
    import symplyphysics.docs.build as build  # pylint: disable=import-outside-toplevel
    import symplyphysics.docs.parse as parse  # pylint: disable=import-outside-toplevel,unused-import
    from . import observe, simfs  # pylint: disable=import-outside-toplevel,unused-import
    os.chdir(core.REPO)
    spec = importlib.util.spec_from_file_location("verif_docs_build_script", os.path.join(core.REPO, "docs", "build.py"))
    dbuild = importlib.util.module_from_spec(spec)
    spec.loader.exec_module(dbuild)
    _S["build"] = build
    _S["dbuild"] = dbuild


def _install(fs):
    from . import simfs  # pylint: disable=import-outside-toplevel
    build, dbuild = _S["build"], _S["dbuild"]
    P = simfs.make_path_class(fs)
    build.open = fs.open
    build.os = simfs.OsProxy(fs)
    build.Path = P
    dbuild.open = fs.open
    dbuild.Path = P
    dbuild.shutil = simfs.ShutilProxy(fs)
    _S["Path"] = P


class V(Exception):

    def __init__(self, oracle, subject, detail):
        super().__init__(detail)
        self.v = {"oracle": oracle, "subject": subject, "detail": detail, "cls": f"C19|{oracle}|{subject}"}


def _flag_ok() -> bool:
    from sympy.core.parameters import global_parameters  # pylint: disable=import-outside-toplevel
    return global_parameters.evaluate is True and global_parameters.distribute is True


def _probe(vios: list, where: str) -> str:
    """Library use after generation: the global switches are default and arithmetic auto-evaluates."""
    import sympy as sp  # pylint: disable=import-outside-toplevel
    from sympy.core.parameters import global_parameters  # pylint: disable=import-outside-toplevel
    out = []
    if global_parameters.evaluate is not True:
        vios.append(V("flag", "evaluate", f"global_parameters.evaluate is {global_parameters.evaluate!r} {where}").v)
    if global_parameters.distribute is not True or getattr(global_parameters, "exp_is_pow", False) is not False:
        vios.append(V("flag", "other-parameters", f"global parameters distribute/exp_is_pow changed {where}").v)
    # the library's own switches, used the way the generator uses them, end with evaluation on
    from symplyphysics.core import processors  # pylint: disable=import-outside-toplevel
    processors.reset_sympy_evaluation()
    if global_parameters.evaluate is not True:
        vios.append(V("flag", "reset-after-generation", f"reset_sympy_evaluation() leaves evaluation off {where}").v)
        global_parameters.evaluate = True
    processors.disable_sympy_evaluation()
    processors.reset_sympy_evaluation()
    if global_parameters.evaluate is not True:
        vios.append(V("flag", "disable-reset-after-generation", f"disable_sympy_evaluation(); reset_sympy_evaluation() leaves evaluation off {where}").v)
        global_parameters.evaluate = True
    x = sp.Symbol("probe_x")
    r = x + x
    out.append(str(r))
    if r != 2 * x or not isinstance(r, sp.Mul):
        vios.append(V("flag", "behaviour", f"x + x gives {r!r} instead of 2*x {where}").v)
    try:
        import symplyphysics.laws.dynamics.acceleration_is_force_over_mass as lawmod  # pylint: disable=import-outside-toplevel
        from symplyphysics import Quantity, units  # pylint: disable=import-outside-toplevel
        q = lawmod.calculate_force(Quantity(2 * units.kilogram), Quantity(3 * units.meter / units.second**2))
        val = float(q.scale_factor)
        out.append(f"{val:.6g}")
        if abs(val - 6000.0) > 1e-6 and abs(val - 6.0) > 1e-9:
            vios.append(V("flag", "calculation", f"calculate_force(2 kg, 3 m/s^2) = {val} {where}").v)
    except Exception as e:  # pylint: disable=broad-except
        vios.append(V("flag", "calculation", f"a calculation after generation raised {type(e).__name__}: {str(e)[:120]} {where}").v)
    return ",".join(out)


def _check_pages_common(fs, pages: dict, vios: list, post: bool) -> None:
    for name, text in sorted(pages.items()):
        for marker in (":laws:symbol::", ":laws:latex::"):
            if marker in text:
                vios.append(V("faithful", f"residual-placeholder|{name}", f"page {name} still contains the placeholder {marker}").v)
                break
        m = re.search(r":laws?[A-Za-z]*:[A-Za-z]|:law[A-Z]", text)
        if m and ":laws:symbol::" not in text and ":laws:latex::" not in text:
            vios.append(V("faithful", f"mangled-directive|{name}", f"page {name} contains a mangled directive {text[m.start():m.start() + 20]!r}").v)
        if post:
            for marker in (":symbols:`", ":quantity_notation:`"):
                if marker in text:
                    vios.append(V("crossref", f"residual-role|{name}", f"page {name} still contains an unresolved {marker}...` role after post-processing").v)
                    break


_ATTR_REF = re.compile(r":attr:`~symplyphysics\.(symbols\.(\w+)\.(\w+)|quantities\.(\w+))`")


def _check_crossrefs(pages: dict, vios: list) -> int:
    import importlib  # pylint: disable=import-outside-toplevel
    import symplyphysics as sx  # pylint: disable=import-outside-toplevel
    from symplyphysics.core.symbols.symbols import DimensionSymbol  # pylint: disable=import-outside-toplevel
    n = 0
    seen = set()
    for name, text in sorted(pages.items()):
        for m in _ATTR_REF.finditer(text):
            n += 1
            if m.group(0) in seen:
                continue
            seen.add(m.group(0))
            if m.group(4):
                obj = getattr(sx.quantities, m.group(4), None)
                if not isinstance(obj, sx.Quantity):
                    vios.append(V("crossref", f"quantity|{m.group(4)}", f"page {name} links to symplyphysics.quantities.{m.group(4)} which is not a quantity").v)
            else:
                try:
                    mod = importlib.import_module(f"symplyphysics.symbols.{m.group(2)}")
                    obj = getattr(mod, m.group(3), None)
                except ImportError:
                    obj = None
                if not isinstance(obj, DimensionSymbol):
                    vios.append(V("crossref", f"symbol|{m.group(3)}", f"page {name} links to symplyphysics.symbols.{m.group(2)}.{m.group(3)} which does not exist").v)
                elif getattr(sx.symbols, m.group(3), None) is not obj and not _declared_in(mod, m.group(3)):
                    vios.append(V("crossref", f"symbol-module|{m.group(3)}", f"page {name} resolves symbol {m.group(3)} to module {m.group(2)} which only re-exports it").v)
    return n


def _declared_in(mod, attr) -> bool:
    """True if `attr` is assigned at top level in the module's own source (not merely imported)."""
    key = ("decl", mod.__name__)
    if key not in _S:
        names = set()
        try:
            tree = ast.parse(open(mod.__file__, encoding="utf-8").read())
            for node in tree.body:
                if isinstance(node, ast.Assign):
                    for t in node.targets:
                        if isinstance(t, ast.Name):
                            names.add(t.id)
        except OSError:
            pass
        _S[key] = names
    return attr in _S[key]


_SYMBOL_BLOCK = re.compile(r"\.\. py:data:: (\w+)\n((?:.*\n)*?)Symbol:\n    :code:`(.*)`\n\nLatex:\n    :math:`(.*)`\n\nDimension:\n    :code:`(.*)`\n")


def _check_symbol_tables(page_name: str, text: str, vios: list) -> int:
    """Independent path: the symbols listed on a page against the *really imported* module."""
    import importlib  # pylint: disable=import-outside-toplevel
    from symplyphysics.core.dimensions import print_dimension  # pylint: disable=import-outside-toplevel
    from symplyphysics.docs.printer_code import code_str  # pylint: disable=import-outside-toplevel
    from symplyphysics.docs.printer_latex import latex_str  # pylint: disable=import-outside-toplevel
    modname = "symplyphysics." + page_name[:-4]
    try:
        mod = importlib.import_module(modname)
    except Exception:  # pylint: disable=broad-except
        return 0
    n = 0
    # split the page into member blocks
    blocks = re.split(r"(?m)^\.\. py:data:: ", text)
    for b in blocks[1:]:
        member = b.split("\n", 1)[0].strip()
        m = re.search(r"\nSymbol:\n    :code:`(.*)`\n\nLatex:\n    :math:`(.*)`\n\nDimension:\n    :code:`(.*)`\n", b)
        if not m:
            continue
        obj = getattr(mod, member, None)
        if obj is None or not hasattr(obj, "dimension"):
            continue
        n += 1
        exp = (code_str(obj), latex_str(obj), print_dimension(obj.dimension))
        got = (m.group(1), m.group(2), m.group(3))
        if exp != got:
            vios.append(V("faithful", f"symbol-table|{modname}.{member}", f"page {page_name} lists {member} as code/latex/dimension {got}, the imported module's attribute has {exp}").v)
    return n


def _members_rendered(captured: dict, pages: dict, vios: list, limit_names: set | None) -> int:
    """View-level faithfulness on real pages: inside the block of member m the symbol placeholder was
    replaced by the code form of *m's* value (as captured at the generator's own print_law call),
    and the latex placeholder by its latex form."""
    from symplyphysics.docs.parse import LawDirectiveType  # pylint: disable=import-outside-toplevel
    from symplyphysics.docs.printer_code import code_str  # pylint: disable=import-outside-toplevel
    from symplyphysics.docs.printer_latex import latex_str  # pylint: disable=import-outside-toplevel
    n = 0
    for doc_name, members in captured.items():
        if limit_names is not None and doc_name not in limit_names:
            continue
        page = pages.get(doc_name.split(".", 1)[1] + ".rst")
        if page is None:
            continue
        for mem in members:
            if not mem.directives or mem.name.startswith("_") or f".. py:data:: {mem.name}\n" not in page:
                continue
            block = page.split(f".. py:data:: {mem.name}\n", 1)[1].split("\n.. py:", 1)[0]
            for d in mem.directives:
                n += 1
                try:
                    if d.directive_type == LawDirectiveType.SYMBOL:
                        want = f":code:`{code_str(mem.value)}`"
                        ok = want in block
                    else:
                        lines = [ln.strip() for ln in latex_str(mem.value).splitlines() if ln.strip()]
                        want = lines[0] if lines else ""
                        ok = (not want) or want in block
                except Exception:  # pylint: disable=broad-except
                    continue
                if not ok:
                    vios.append(V("faithful", f"rendering|{doc_name}.{mem.name}", f"page of {doc_name}: the placeholder of member {mem.name} was not replaced by the rendering of that member ({want[:80]!r} not found in its block)").v)
    return n


def _members_meaning(captured: dict, vios: list, limit_names: set | None) -> int:
    """Object-level faithfulness: the value rendered for each documented member of page(M) means
    the same as the attribute of the really imported module M."""
    import importlib  # pylint: disable=import-outside-toplevel
    import sympy as sp  # pylint: disable=import-outside-toplevel
    from . import observe  # pylint: disable=import-outside-toplevel
    n = 0
    for doc_name, members in captured.items():
        if limit_names is not None and doc_name not in limit_names:
            continue
        try:
            mod = importlib.import_module(doc_name)
        except Exception:  # pylint: disable=broad-except
            continue
        base = {}
        for m_ in observe._namespaces(mod)[1:]:  # pylint: disable=protected-access
            if m_.__name__.startswith("symplyphysics.symbols") or m_.__name__ == "symplyphysics.quantities":
                observe._index_namespace(m_, base)  # pylint: disable=protected-access
        kx, kr = dict(base), dict(base)
        for mem in members:
            kx.setdefault(id(mem.value), f"M.{mem.name}")
            real = getattr(mod, mem.name, None)
            if real is not None:
                kr.setdefault(id(real), f"M.{mem.name}")
        for mem in members:
            if not mem.directives:
                continue
            real = getattr(mod, mem.name, None)
            if not isinstance(mem.value, sp.Basic) or not isinstance(real, sp.Basic):
                continue
            fx = observe.fingerprint(mem.value, kx)
            fr = observe.fingerprint(real, kr)
            if fx[0] == "num" and fr[0] == "num":
                n += 1
                from .c03_history import _fp_close  # pylint: disable=import-outside-toplevel
                if fx[1] != fr[1] or len(fx) != len(fr) or not all(_fp_close(a, b) for a, b in zip(fx[2:], fr[2:])):
                    vios.append(V("faithful", f"formula|{doc_name}.{mem.name}", f"the formula rendered for {doc_name}.{mem.name} does not mean the module's own equation: {fx[1:4]} vs {fr[1:4]}").v)
    return n


def _run_generation(fs, op, vios, faults_count, probes) -> dict:
    """One generate_laws_docs call under the op's listing permutation and faults."""
    build = _S["build"]
    src = op["src"]
    fs.begin(int(op.get("perm", 0)), op.get("faults"))
    if op.get("stale"):
        # output location pre-populated with longer garbage under the same names
        for name in list(fs.files):
            fs.files[name] = fs.files[name] + "\nSTALE-GARBAGE " * 50
        faults_count["stale_output"] += 1
    else:
        fs.wipe()  # like `docs/build.py --wipe-generated`: the output directory itself disappears
    fs.locale_encoding = op.get("locale", "utf-8")
    if fs.locale_encoding != "utf-8":
        faults_count["non_utf8_locale"] = faults_count.get("non_utf8_locale", 0) + 1
    per_page_flag_bad = []
    captured = {}
    orig_law, orig_pkg, orig_print = build._process_law, build._process_law_package, build.print_law  # pylint: disable=protected-access

    def law(directory, filename, output_dir, quiet):
        r = orig_law(directory, filename, output_dir, quiet)
        if not _flag_ok():
            per_page_flag_bad.append(f"{directory}/{filename}")
        return r

    def pkg(directory, laws, packages, output_dir, quiet):
        r = orig_pkg(directory, laws, packages, output_dir, quiet)
        if not _flag_ok():
            per_page_flag_bad.append(f"{directory}/__init__.py")
        return r

    def print_law(title, description, members, functions, doc_name):
        captured[doc_name] = members
        return orig_print(title, description, members, functions, doc_name)

    build._process_law, build._process_law_package, build.print_law = law, pkg, print_law  # pylint: disable=protected-access
    status = "ok"
    try:
        build.generate_laws_docs(src, OUT, ["core"], True)
    except OSError as e:
        status = f"raised:OSError:{e.errno}"
    except Exception as e:  # pylint: disable=broad-except
        status = f"raised:{type(e).__name__}:{str(e)[:200]}"
    finally:
        build._process_law, build._process_law_package, build.print_law = orig_law, orig_pkg, orig_print  # pylint: disable=protected-access
    fired = list(fs.fired)
    for f in fired:
        faults_count[f"{f['site']}_fail"] = faults_count.get(f"{f['site']}_fail", 0) + 1
    if op.get("perm"):
        faults_count["list_shuffle"] += 1
    pages = {os.path.relpath(p, OUT): t for p, t in fs.files.items()}
    info = {"status": status, "fired": fired, "n_pages": len(pages), "site_counts": dict(fs.counts)}
    expected = expected_pages(src, ["core"]) if src.startswith("symplyphysics") else None
    if not fired:
        # ---- fault-free class: total, exactly one page each, faithful
        if status != "ok":
            vios.append(V("total", f"generate|{src}", f"fault-free generation of {src} failed: {status}").v)
            return info
        if expected is not None and set(pages) != expected:
            missing, extra = sorted(expected - set(pages)), sorted(set(pages) - expected)
            vios.append(V("pages", f"page-set|{(missing + extra)[0]}", f"generation of {src}: missing pages {missing[:5]}, unexpected pages {extra[:5]} ({len(pages)} written, {len(expected)} documented)").v)
        multi = sorted(p for p, n in fs.write_opens.items() if n != 1)
        if multi:
            vios.append(V("pages", f"written-twice|{os.path.relpath(multi[0], OUT)}", f"pages opened for writing more than once: {multi[:3]}").v)
        if per_page_flag_bad:
            vios.append(V("flag", "after-page", f"evaluation flag not default after page(s) {per_page_flag_bad[:3]}").v)
        for name, text in pages.items():
            if "STALE-GARBAGE" in text:
                vios.append(V("faithful", f"stale-content|{name}", f"page {name} still contains bytes of an older, longer file").v)
                break
        _check_pages_common(fs, pages, vios, post=False)
        k = int(op.get("check_symbols", 8))
        names = sorted(pages)
        pick = [names[(i * 7919 + int(op.get("perm", 0))) % len(names)] for i in range(min(k, len(names)))] if names else []
        n_sym = sum(_check_symbol_tables(n, pages[n], vios) for n in sorted(set(pick)))
        n_formula = _members_meaning(captured, vios, {"symplyphysics." + n[:-4] for n in pick})
        for n_, text_ in sorted(pages.items()):
            stem = os.path.join("symplyphysics" if src.startswith("symplyphysics") else "", n_[:-4].replace(".", "/"))
            for cand in (stem + ".py", os.path.join(stem, "__init__.py")):
                if os.path.isfile(cand):
                    check_sections(n_, text_, open(cand, encoding="utf-8").read(), vios)
                    break
        n_render = _members_rendered(captured, pages, vios, None)
        info["renderings_checked"] = n_render
        probes["placeholder rendering located inside its own member block"] = int(n_render > 0)
        info["symbols_checked"] = n_sym
        info["formulas_checked"] = n_formula
        probes["symbol table compared with the really imported module"] = int(n_sym > 0)
        probes["formula meaning compared with the really imported module"] = int(n_formula > 0)
    else:
        # ---- fault-injecting class (relaxed deliberately and narrowly): may fail, but loudly
        probes["fault fired inside a generation"] = 1
        if status == "ok":
            # returned normally although an I/O call failed: the output must still be complete
            if expected is not None:
                missing = sorted(expected - set(pages))
                if missing:
                    vios.append(V("total", f"silent-failure|{fired[0]['site']}", f"an injected {fired[0]['errno']} at {fired[0]['site']}#{fired[0]['k']} was swallowed: generation returned normally but pages are missing: {missing[:3]}").v)
            info["swallowed"] = True
        info["flag_after_abort"] = _flag_ok()
        probes["evaluation flag left off by an aborted generation (probe only)"] = int(not info["flag_after_abort"])
    info["pages"] = pages
    return info


_N_SYM_PRE = re.compile(r":symbols:`(\w*)`")
_N_SYM_POST = re.compile(r":attr:`~symplyphysics\.symbols\.\w+\.(\w+)`")
_N_QTY_PRE = re.compile(r":quantity_notation:`(\w*)`")
_N_QTY_POST = re.compile(r":math:`[^`]*` \(:code:`[^`]*`\) is :attr:`~symplyphysics\.quantities\.(\w+)`")


def role_normal_form(text: str) -> str:
    """A page with both spellings of a cross-reference (the role before post-processing, the
    resolved link after it) replaced by one token: post-processing must change nothing else."""
    for rx, tok in ((_N_QTY_POST, "QN"), (_N_QTY_PRE, "QN"), (_N_SYM_POST, "SY"), (_N_SYM_PRE, "SY")):
        text = rx.sub(lambda m, tok=tok: f"<{tok}:{m.group(1)}>", text)
    return text


def _run_post(fs, op, vios, faults_count, probes) -> dict:
    dbuild = _S["dbuild"]
    fs.begin(int(op.get("perm", 0)), op.get("faults"))
    status = "ok"
    before = dict(fs.files)
    try:
        dbuild.shutil.copyfile(os.path.join(core.REPO, "docs", "index.rst"), os.path.join(OUT, "index.rst"))
        dbuild.process_generated_files(OUT)
    except OSError as e:
        status = f"raised:OSError:{e.errno}"
    except Exception as e:  # pylint: disable=broad-except
        status = f"raised:{type(e).__name__}:{str(e)[:200]}"
    fired = list(fs.fired)
    for f in fired:
        faults_count[f"{f['site']}_fail"] = faults_count.get(f"{f['site']}_fail", 0) + 1
    pages = {os.path.relpath(p, OUT): t for p, t in fs.files.items()}
    info = {"status": status, "fired": fired, "n_pages": len(pages)}
    if not fired:
        if status != "ok":
            vios.append(V("total", "postprocess", f"fault-free role post-processing failed: {status}").v)
            return info
        _check_pages_common(fs, pages, vios, post=True)
        info["crossrefs"] = _check_crossrefs(pages, vios)
        probes["cross-reference targets resolved by getattr"] = int(info["crossrefs"] > 0)
        changed = 0
        for pth, old_text in sorted(before.items()):
            new_text = fs.files.get(pth)
            if new_text is None or pth.endswith("index.rst"):
                continue
            if role_normal_form(old_text) != role_normal_form(new_text):
                a, b = role_normal_form(old_text), role_normal_form(new_text)
                k = next((i for i, (x, y) in enumerate(zip(a, b)) if x != y), min(len(a), len(b)))
                vios.append(V("faithful", f"postprocess-altered-text|{os.path.relpath(pth, OUT) if not pth.startswith(OUT + '/vpkg') else 'virtual'}", f"post-processing changed page {os.path.relpath(pth, OUT)} beyond resolving roles (lengths {len(a)} -> {len(b)}; first difference at {k}: {a[k:k + 40]!r} vs {b[k:k + 40]!r})").v)
                break
            changed += old_text != new_text
        probes["post-processing compared with an independent normal form"] = int(changed > 0)
        lost = sorted(set(before) - set(fs.files))
        if lost:
            vios.append(V("pages", f"lost-in-postprocess|{os.path.relpath(lost[0], OUT)}", f"post-processing lost pages {lost[:3]}").v)
    else:
        probes["fault fired inside post-processing"] = 1
        if status == "ok":
            bad = [n for n, t in pages.items() if ":symbols:`" in t or ":quantity_notation:`" in t or not t]
            if bad:
                vios.append(V("total", f"silent-failure-post|{fired[0]['site']}", f"an injected {fired[0]['errno']} at {fired[0]['site']}#{fired[0]['k']} was swallowed by post-processing; pages left unresolved/empty: {bad[:3]}").v)
    info["pages"] = pages
    return info


def _virtual_tree(vseed: int, broken: bool = False, edit_seed: int | None = None, top: str = "simsrc", bad_role: bool = False) -> tuple[dict, set]:
    """A small synthetic documented tree in shapes the real one lacks (nested directory named
    like an excluded one, private files and packages, undocumented modules, directives in both
    orders or alone, several documented members, members without directives, private members with
    a string literal after them, expressions whose evaluated form prints differently, wrappers
    whose printed names collide across modules). Every docstring carries a unique marker.
    With `edit_seed` the same tree is returned after a later source edit (laws added to existing
    packages without touching their __init__.py, one law rewritten); the second value is the set
    of edited paths."""
    import random  # pylint: disable=import-outside-toplevel
    rng = random.Random(vseed)
    root = f"{top}/vpkg"
    files: dict[str, str] = {}
    pkg_doc = '"""\nVirtual package {n}\n================\n\nText.\n"""\n'
    syms = ["mass", "time", "length", "force", "speed", "temperature", "acceleration", "energy"]

    def law_source(i, documented=True, broken=False, rnd=None):
        rnd = rnd or rng
        a, b, c = rnd.sample(syms, 3)
        head = f'"""\nVirtual law {i}\n{"=" * (12 + len(str(i))) if documented else ""}\n\nDescription of law {i}.\n"""\n' if documented or rnd.random() < 0.5 else ""
        body = "from sympy import Eq\nfrom symplyphysics import symbols, clone_as_symbol, Symbol, units, dimensionless\nfrom symplyphysics.core.operations.symbolic import FiniteDifference, Average\n\n"
        body += f'first = symbols.{a}\n"""\nDOC:first:{i} is :symbols:`{a}`.\n"""\n'
        if rnd.random() < 0.4:
            body += f'_helper = symbols.{b} * 2\n"""\nPRIVATE-DOC:{i} must never be shown.\n"""\n'
        body += f'second = symbols.{b}\n"""\nDOC:second:{i} is :symbols:`{b}`.\n"""\n'
        body += f'third = clone_as_symbol(symbols.{c}, subscript="{i}")\n"""\nDOC:third:{i}.\n"""\n'
        order = rnd.choice(["sl", "ls", "s", "l"])
        d = {"s": ":laws:symbol::\n", "l": ":laws:latex::\n"}
        directive = "\n".join(d[ch] for ch in order)
        rhs = rnd.choice([f"second * third + {i + 2}", "second * third + second * third", "third * 2 * 3 + second", "second / third + second / third", f"(second + third) * {i + 2}"])
        body += f'law = Eq(first, {rhs})\n"""\nDOC:law:{i} Some text before.\n\n{directive}\nSome text after.\n"""\n'
        if rnd.random() < 0.5:
            body += f'extra = Eq(second, first / third + first / third)\n"""\nDOC:extra:{i}\n\n{directive}\n"""\n'
        if rnd.random() < 0.5:
            # a wrapper around a module-local symbol whose *printed* name collides across modules
            dim, ltx = rnd.choice([("units.length", "x"), ("dimensionless", "\\\\xi"), ("units.time", "x_t"), ("units.mass", "\\\\chi")])
            wrapper = rnd.choice(["FiniteDifference", "Average"])
            body += f'_x = Symbol("x", {dim}, display_latex="{ltx}")\ndelta = {wrapper}(_x)\n"""\nDOC:delta:{i} Change of x.\n"""\n'
        if rnd.random() < 0.3:
            # one member, two consecutive placeholder docstrings
            body += f'twice = Eq(third, first + second)\n"""\n:laws:symbol::\n"""\n"""\nDOC:twice:{i}\n\n:laws:latex::\n"""\n'
        if broken:
            body += 'broken = Eq(first, this_name_is_not_defined * second)\n"""\n:laws:symbol::\n"""\n'
        if rnd.random() < 0.4:
            body += "\n_private_value = first + second\n\n\ndef calculate_it(x_):\n    \"\"\"Documented function.\"\"\"\n    return x_\n"
        return head + body

    def fill(d, depth, idx):
        files[f"{d}/__init__.py"] = pkg_doc.format(n=idx[0]) if rng.random() < 0.85 else ""
        for _ in range(rng.choice([1, 2, 3])):
            idx[0] += 1
            name = rng.choice(["law", "rule", "relation"]) + str(idx[0])
            files[f"{d}/{name}.py"] = law_source(idx[0], documented=rng.random() < 0.8)
        if rng.random() < 0.5:
            idx[0] += 1
            files[f"{d}/_hidden{idx[0]}.py"] = law_source(idx[0])
        if rng.random() < 0.3:
            files[f"{d}/notes.txt"] = "not python"
        if depth < 2:
            for sub in rng.sample(["mechanics", "core", "_drafts", "fields", "optics", "drafts"], rng.choice([1, 2, 3])):
                fill(f"{d}/{sub}", depth + 1, idx)

    files[f"{root}/__init__.py"] = ""
    idx = [0]
    for top in rng.sample(["alpha", "core", "beta", "drafts"], rng.choice([2, 3])):
        fill(f"{root}/{top}", 0, idx)
    if broken:
        # a source error inside an evaluation-disabled window of some visited, documented module
        cands = sorted(p for p in files if p.endswith(".py") and not p.endswith("__init__.py") and "/core/" not in p and "/_" not in p and "/alpha/drafts/" not in p and not p.startswith(root + "/core"))
        if cands:
            files[rng.choice(cands)] = law_source(999, documented=True, broken=True)
    if bad_role:
        # one documented law refers to a constant that does not exist (a typo in a role)
        cands = sorted(p for p in files if p.endswith(".py") and not p.endswith("__init__.py") and "DOC:first" in files[p] and is_documented(files[p]) and "/core/" not in p and "/_" not in p and "/alpha/drafts/" not in p and not p.startswith(root + "/core"))
        if cands:
            pth = cands[0]
            files[pth] = files[pth].replace("DOC:second:", "See :quantity_notation:`no_such_constant`. DOC:second:", 1)
    edited: set = set()
    if edit_seed is not None:
        er = random.Random(edit_seed)
        dirs = sorted({os.path.dirname(p) for p in files if p.endswith("__init__.py") and os.path.dirname(p) != root})
        for k in range(er.choice([1, 2])):
            d = er.choice(dirs)
            pth = f"{d}/added{700 + k}.py"
            files[pth] = law_source(700 + k, documented=True, rnd=er)
            edited.add(pth)
        laws = sorted(p for p in files if p.endswith(".py") and not p.endswith("__init__.py") and p not in edited)
        if laws and er.random() < 0.7:
            pth = er.choice(laws)
            files[pth] = law_source(800, documented=True, rnd=er)
            edited.add(pth)
    return files, edited


_TOCTREE = re.compile(r"\.\. toctree::\n    :maxdepth: 4\n\n+((?:    \S.*\n)*)")


def _virtual_content_oracles(files: dict, pages: dict, vios: list, top: str = "simsrc") -> int:
    """Content oracles for synthetic pages, each through a path independent of the generator:
    (a) every member block shows its own docstring marker and nobody else's, private docstrings
    never appear; (b) every package page lists exactly its documented laws and its non-private
    sub-packages, sorted; (c) every placeholder was replaced by the code/latex form of the member
    as *written* (our own exec of the module with evaluation off)."""
    import sympy as sp  # pylint: disable=import-outside-toplevel
    from symplyphysics.docs.printer_code import code_str  # pylint: disable=import-outside-toplevel
    from symplyphysics.docs.printer_latex import latex_str  # pylint: disable=import-outside-toplevel
    n = 0
    for name, text in sorted(pages.items()):
        stem = name[:-4]
        src_path = top + "/" + stem.replace(".", "/")
        if "PRIVATE-DOC" in text:
            vios.append(V("faithful", "virtual-private-docstring", f"synthetic page {name} shows the string literal that follows a private variable").v)
        if src_path + ".py" in files:
            src = files[src_path + ".py"]
            # (a) markers
            for b in re.split(r"(?m)^\.\. py:data:: ", text)[1:]:
                member = b.split("\n", 1)[0].strip()
                block = b.split("\n.. py:function::", 1)[0]
                marks = set(re.findall(r"DOC:(\w+):\d+", block))
                own = re.search(rf"(?m)^{member} = .*\n(?:\"\"\"\n(?:(?!\"\"\").*\n)*\"\"\"\n)*", src)
                expects_marker = bool(own and f"DOC:{member}:" in own.group(0))
                if marks - {member} or (expects_marker and member not in marks):
                    vios.append(V("faithful", "virtual-docstring-association", f"synthetic page {name}: member {member} is shown with the docstring of {sorted(marks) or 'nobody'}").v)
                n += 1
            # (c) renderings as written
            ns: dict = {}
            try:
                with sp.evaluate(False):
                    exec(compile(src, src_path, "exec"), ns)  # pylint: disable=exec-used
            except Exception:  # pylint: disable=broad-except
                ns = {}
            for member in ("law", "extra", "twice"):
                obj = ns.get(member)
                if obj is None or f".. py:data:: {member}\n" not in text:
                    continue
                block = text.split(f".. py:data:: {member}\n", 1)[1].split("\n.. py:", 1)[0]
                doc_m = re.search(rf"(?m)^{member} = .*\n((?:\"\"\"\n(?:(?!\"\"\").*\n)*\"\"\"\n)+)", src)
                doc_src = doc_m.group(1) if doc_m else ""
                # of several string literals after one member only the last one is its docstring
                lits = re.findall(r"\"\"\"\n((?:(?!\"\"\").*\n)*)\"\"\"\n", doc_src)
                doc_src = lits[-1] if lits else ""
                if ":laws:symbol::" in doc_src:
                    want = f":code:`{code_str(obj)}`"
                    if want not in block:
                        got = re.findall(r":code:`(.*)`", block)
                        vios.append(V("faithful", "virtual-code-rendering", f"synthetic page {name}: the symbol placeholder of {member} was not replaced by the code form of the equation as written ({code_str(obj)!r}); page shows {got[:2]}").v)
                if ":laws:latex::" in doc_src and ":laws:symbol::" not in doc_src.split(":laws:latex::")[0][-1:] :
                    want = latex_str(obj).strip().splitlines()[0].strip()
                    if want and want not in block:
                        vios.append(V("faithful", "virtual-latex-rendering", f"synthetic page {name}: the latex placeholder of {member} was not replaced by the latex form of the equation as written ({want!r})").v)
                n += 1
        elif src_path + "/__init__.py" in files:
            # (b) package contents
            pref = src_path + "/"
            children = sorted({q[len(pref):].split("/")[0] for q in files if q.startswith(pref)})
            laws = [stem + "." + c[:-3] for c in children if c.endswith(".py") and not c.startswith("__") and (pref + c) in files and is_documented(files[pref + c])]
            pkgs = [stem + "." + c for c in children if any(q.startswith(pref + c + "/") for q in files) and not _private(c)]
            m = _TOCTREE.search(text + "\n")
            listed = [ln.strip() for ln in m.group(1).splitlines()] if m else []
            if listed != pkgs + laws:
                vios.append(V("faithful", "virtual-package-contents", f"synthetic package page {name} lists {listed}, the tree has sub-packages {pkgs} and documented laws {laws}").v)
            n += 1
    return n


def _virtual_symbol_tables(files: dict, pages: dict, vios: list, top: str = "simsrc") -> int:
    """Independent path for synthetic modules: exec the source ourselves (default evaluation,
    fresh namespace, no generator state) and compare every symbol table on the page."""
    from symplyphysics.core.dimensions import print_dimension  # pylint: disable=import-outside-toplevel
    from symplyphysics.docs.printer_code import code_str  # pylint: disable=import-outside-toplevel
    from symplyphysics.docs.printer_latex import latex_str  # pylint: disable=import-outside-toplevel
    n = 0
    for name, text in sorted(pages.items()):
        src_path = name[:-4].replace(".", "/")
        src = files.get(top + "/" + src_path + ".py")
        if src is None:
            continue
        ns: dict = {}
        try:
            exec(compile(src, src_path, "exec"), ns)  # pylint: disable=exec-used
        except Exception:  # pylint: disable=broad-except
            continue
        for b in re.split(r"(?m)^\.\. py:data:: ", text)[1:]:
            member = b.split("\n", 1)[0].strip()
            m = re.search(r"\nSymbol:\n    :code:`(.*)`\n\nLatex:\n    :math:`(.*)`\n\nDimension:\n    :code:`(.*)`\n", b)
            obj = ns.get(member)
            if not m or obj is None or not hasattr(obj, "dimension"):
                continue
            n += 1
            exp = (code_str(obj), latex_str(obj), print_dimension(obj.dimension))
            got = (m.group(1), m.group(2), m.group(3))
            if exp != got:
                vios.append(V("faithful", f"virtual-symbol-table|{member}", f"synthetic page {name} lists {member} as code/latex/dimension {got}; executing the module on its own gives {exp}").v)
    return n


def _bad_role_postprocess(fs, pages: dict, vios: list, probes: dict) -> None:
    """A page refers to a constant that does not exist: post-processing must fail (loudly), must not
    destroy the page, and must fail again when it is simply run again."""
    dbuild = _S["dbuild"]
    target = [n for n, t in pages.items() if "no_such_constant" in t]
    if not target:
        return
    probes["post-processing with an unknown role name"] = 1
    before = {n: fs.files.get(os.path.join(OUT, n)) for n in target}
    outcomes = []
    for _attempt in range(2):
        fs.begin(0, [])
        try:
            dbuild.process_generated_files(OUT)
            outcomes.append("ok")
        except Exception as e:  # pylint: disable=broad-except
            outcomes.append("raised:" + type(e).__name__)
    after = {n: fs.files.get(os.path.join(OUT, n)) for n in target}
    if outcomes[0] == "ok":
        vios.append(V("crossref", "virtual-unknown-role-accepted", f"post-processing accepted the unknown constant in {target[0]} silently").v)
    elif outcomes[1] == "ok" or any(not (after[n] or "").strip() for n in target) or any("no_such_constant" not in (after[n] or "") for n in target):
        vios.append(V("total", "virtual-failed-postprocess-destroys-page", f"post-processing of {target[0]} failed ({outcomes[0]}) as it must, but left the page damaged: a second run gives {outcomes[1]}, page length {len(before[target[0]] or '')} -> {len(after[target[0]] or '')}").v)


def _run_virtual(fs, op, vios, faults, probes, aborted):
    build = _S["build"]
    was_pending = aborted["pending"]
    broken = bool(op.get("broken"))
    top = op.get("top", "simsrc")
    vroot = f"{top}/vpkg"
    files, edited = _virtual_tree(int(op["vseed"]), broken=broken, edit_seed=op.get("edit"), top=top, bad_role=bool(op.get("bad_role")))
    if op.get("preimport"):
        # the user has imported these law modules earlier in the process (evaluated, as any import is)
        import sys as _sys  # pylint: disable=import-outside-toplevel
        import types  # pylint: disable=import-outside-toplevel
        for pth, src_ in sorted(files.items()):
            if not pth.endswith(".py") or "this_name_is_not_defined" in src_:
                continue
            dotted = pth[:-3].replace("/", ".")
            if dotted.endswith(".__init__"):
                dotted = dotted[:-9]
            mod_ = types.ModuleType(dotted)
            mod_.__file__ = pth
            try:
                exec(compile(src_, pth, "exec"), mod_.__dict__)  # pylint: disable=exec-used
            except Exception:  # pylint: disable=broad-except
                continue
            _sys.modules[dotted] = mod_
        faults["synthetic_laws_imported_before"] = faults.get("synthetic_laws_imported_before", 0) + 1
    fs.locale_encoding = op.get("locale", "utf-8")
    if fs.locale_encoding != "utf-8":
        faults["non_utf8_locale"] = faults.get("non_utf8_locale", 0) + 1
    if not op.get("keep_output"):
        fs.wipe()
        fs.mtimes.clear()
    else:
        faults["regenerate_over_old_output"] = faults.get("regenerate_over_old_output", 0) + 1
        probes["source edited between two generations into the same output"] = int(bool(edited))
    fs.mount_source(files, vroot, newer=edited)
    fs.begin(int(op.get("perm", 0)), op.get("faults"))
    status = "ok"
    flag_bad_pages = []
    orig_law = build._process_law  # pylint: disable=protected-access

    def law(directory, filename, output_dir, quiet):
        r = orig_law(directory, filename, output_dir, quiet)
        if not _flag_ok():
            flag_bad_pages.append(f"{directory}/{filename}")
        return r

    build._process_law = law  # pylint: disable=protected-access
    try:
        build.generate_laws_docs(vroot, OUT, ["core", "alpha/drafts"], True)
    except OSError as e:
        status = f"raised:OSError:{e.errno}"
    except Exception as e:  # pylint: disable=broad-except
        status = f"raised:{type(e).__name__}:{str(e)[:160]}"
    finally:
        build._process_law = orig_law  # pylint: disable=protected-access
    fired = list(fs.fired)
    for f in fired:
        faults[f"{f['site']}_fail"] = faults.get(f"{f['site']}_fail", 0) + 1
    if broken:
        faults["source_error"] = faults.get("source_error", 0) + 1
    pages = {os.path.relpath(p, OUT): t for p, t in fs.files.items()}

    def vread(p):
        q = os.path.normpath(p)
        if q not in files:
            raise FileNotFoundError(q)
        return files[q]

    def vlist(d):
        pref = os.path.normpath(d) + "/"
        return sorted({q[len(pref):].split("/")[0] for q in files if q.startswith(pref)})

    def visdir(p):
        pref = os.path.normpath(p) + "/"
        return any(q.startswith(pref) for q in files)

    exp = expected_pages(vroot, ["core", "alpha/drafts"], read=vread, listdir=vlist, isdir=visdir)
    faults["virtual_tree"] = faults.get("virtual_tree", 0) + 1
    probes["synthetic documented tree generated"] = 1
    if not fired and not broken:
        if status != "ok":
            vios.append(V("total", "virtual-tree", f"generation of a synthetic documented tree failed: {status}").v)
        else:
            if set(pages) != exp:
                missing, extra = sorted(exp - set(pages)), sorted(set(pages) - exp)
                vios.append(V("pages", "virtual-page-set", f"synthetic tree: missing pages {missing[:4]}, unexpected pages {extra[:4]}").v)
            for name, text in sorted(pages.items()):
                one: list = []
                _check_pages_common(fs, {name: text}, one, post=False)
                for v in one:
                    # synthetic page names are arbitrary: the subject is the oracle, not the page
                    kind = v["subject"].split("|")[0]
                    vios.append(V(v["oracle"], "virtual-" + kind, v["detail"]).v)
                if re.search(r"(?m)^\s*Some text before\.", text) and "Some text after." not in text:
                    vios.append(V("faithful", "virtual-prose-lost", f"synthetic page {name} lost the prose after a directive").v)
            # after an aborted generation the flag may still be off until the first reset of this
            # generation ran, so pages are judged individually only in a clean process state; the
            # end-of-generation state is always judged (every synthetic law has a reset window)
            has_window = any((top + "/" + n[:-4].replace(".", "/") + ".py") in files for n in pages)
            if (flag_bad_pages and not was_pending) or (not _flag_ok() and (has_window or not was_pending)):
                vios.append(V("flag", "after-virtual", f"evaluation flag not default after generating a synthetic tree (first bad page: {(flag_bad_pages or ['end'])[0]}; previous generation aborted: {was_pending})").v)
            n = _virtual_symbol_tables(files, pages, vios, top)
            probes["synthetic symbol tables compared with an independent exec"] = int(n > 0)
            for n_, text_ in sorted(pages.items()):
                base_ = top + "/" + n_[:-4].replace(".", "/")
                src_ = files.get(base_ + ".py", files.get(base_ + "/__init__.py"))
                if src_ is not None:
                    check_sections(n_, text_, src_, vios, prefix="virtual-")
            n2 = _virtual_content_oracles(files, pages, vios, top)
            if op.get("bad_role"):
                _bad_role_postprocess(fs, pages, vios, probes)
            probes["synthetic docstring / contents / rendering oracles"] = int(n2 > 0)
            if aborted["pending"]:
                probes["successful generation after an aborted one in the same process"] = 1
            aborted["pending"] = False
    else:
        probes["fault fired inside a synthetic-tree generation"] = 1
        if status == "ok":
            aborted["pending"] = False
            missing = sorted(exp - set(pages))
            if missing:
                what = f"an injected {fired[0]['errno']} at {fired[0]['site']}#{fired[0]['k']}" if fired else "a source error in a documented module"
                vios.append(V("total", f"silent-failure|{fired[0]['site'] if fired else 'source_error'}", f"{what} was swallowed on a synthetic tree: generation returned normally but pages are missing: {missing[:3]}").v)
        else:
            aborted["pending"] = True
            probes["evaluation flag left off by an aborted generation (probe only)"] = int(not _flag_ok()) or probes.get("evaluation flag left off by an aborted generation (probe only)", 0)
    fs.vsrc = None
    outcome = status.split(":")[0] + "|" + core.digest({n: hashlib.sha256(t.encode()).hexdigest() for n, t in pages.items()})[:16]
    f0 = fired[0] if fired else {"site": "source_error" if broken else "-", "k": 0}
    return outcome, f"{op.get('perm', 0)}|virtual{op['vseed']}|{f0['site']}|{f0['k']}|"


def child_run(job: dict) -> dict:  # pylint: disable=too-many-branches,too-many-statements
    import importlib  # pylint: disable=import-outside-toplevel
    from sympy.core.cache import clear_cache  # pylint: disable=import-outside-toplevel
    from symplyphysics.core.symbols import id_generator  # pylint: disable=import-outside-toplevel
    from . import simfs  # pylint: disable=import-outside-toplevel
    build = _S["build"]
    fs = simfs.SimFS(OUT)
    _install(fs)
    vios: list = []
    events = []
    faults = {"list_shuffle": 0, "stale_output": 0, "jump": 0, "clear_cache": 0, "import_before": 0, "repeat": 0}
    from .c14_vectors import _cache_really_off  # pylint: disable=import-outside-toplevel
    if _cache_really_off():
        faults["sympy_cache_off_run"] = 1
    probes: dict = {}
    out_pages = {}
    digests = {}
    states = []
    gens = 0
    steps = 0
    last_gen_pages = None
    prehist = []
    aborted = {"pending": False}
    for step, op in enumerate(job["ops"]):
        steps += 1
        k = op["op"]
        outcome = ""
        if k == "jump":
            from .observe import COUNTERS  # pylint: disable=import-outside-toplevel
            if COUNTERS.jump(op["prefix"], op["to"]):
                faults["jump"] += 1
            prehist.append(f"j{op['prefix']}{op['to']}")
        elif k == "clear_cache":
            clear_cache()
            faults["clear_cache"] += 1
            prehist.append("cc")
        elif k == "use_printers":
            import sympy as sp  # pylint: disable=import-outside-toplevel
            from symplyphysics import symbols as sy, print_expression  # pylint: disable=import-outside-toplevel
            from symplyphysics.docs.printer_code import code_str  # pylint: disable=import-outside-toplevel
            from symplyphysics.docs.printer_latex import latex_str  # pylint: disable=import-outside-toplevel
            e = sp.Eq(sy.force, sy.mass * sy.acceleration / 2)
            for call in (lambda: latex_str(e, mul_symbol="dot"), lambda: latex_str(e, mul_symbol="times", fold_short_frac=True), lambda: code_str(e, order="none"), lambda: print_expression(e), lambda: latex_str(e), lambda: code_str(e)):
                try:
                    call()
                except Exception:  # pylint: disable=broad-except
                    pass
            faults["printers_used_before"] = faults.get("printers_used_before", 0) + 1
            # not recorded in `prehist`: printing creates no objects, the generation history is unchanged
        elif k == "import_tree":
            names = sorted(expected_pages(op["src"], ["core"]))
            done = 0
            for i in range(int(op["n"])):
                if not names:
                    break
                name = names[(i * 104729 + 13) % len(names)]
                try:
                    importlib.import_module("symplyphysics." + name[:-4])
                    done += 1
                except Exception:  # pylint: disable=broad-except
                    pass
            faults["import_before"] += done
            prehist.append(f"imp{op['src']}{op['n']}")
        elif k == "generate":
            gens += 1
            if gens > 1:
                faults["repeat"] += 1
            info = _run_generation(fs, op, vios, faults, probes)
            pages = info.pop("pages", {})
            outcome = info["status"] + "|" + core.digest({n: hashlib.sha256(t.encode()).hexdigest() for n, t in pages.items()})[:16]
            if op.get("recover") and info["status"] == "ok" and not info["fired"] and last_gen_pages is not None:
                probes["recovery generation after a failed one"] = 1
            key = f"gen{gens}"
            digests[key] = {"src": op["src"], "status": info["status"], "fired": info["fired"], "pages": {n: hashlib.sha256(t.encode()).hexdigest()[:20] for n, t in pages.items()}, "site_counts": info.get("site_counts"), "symbols_checked": info.get("symbols_checked"), "formulas_checked": info.get("formulas_checked"), "prehistory": list(prehist), "perm": op.get("perm", 0), "stale": bool(op.get("stale"))}
            if op.get("return_pages") or (prehist and not info["fired"]) or gens > 1:
                out_pages[key] = pages if op.get("return_pages") or len(pages) <= 80 else {}
            last_gen_pages = pages
            f0 = info["fired"][0] if info["fired"] else {"site": "-", "k": 0}
            states.append(f"{job['env'].get('hashseed')}|{op.get('perm', 0)}|{op['src']}|{f0['site']}|{f0['k']}|{core.digest(prehist)[:6]}")
        elif k == "postprocess":
            if op.get("regenerate"):
                _run_generation(fs, {"src": op["regenerate"], "perm": 0, "faults": []}, vios, faults, probes)
            info = _run_post(fs, op, vios, faults, probes)
            pages = info.pop("pages", {})
            outcome = info["status"] + "|" + core.digest({n: hashlib.sha256(t.encode()).hexdigest() for n, t in pages.items()})[:16]
            key = f"post{gens}"
            digests[key] = {"status": info["status"], "fired": info["fired"], "pages": {n: hashlib.sha256(t.encode()).hexdigest()[:20] for n, t in pages.items()}, "crossrefs": info.get("crossrefs"), "prehistory": list(prehist)}
            if op.get("return_pages"):
                out_pages[key] = pages
            f0 = info["fired"][0] if info["fired"] else {"site": "-", "k": 0}
            states.append(f"{job['env'].get('hashseed')}|{op.get('perm', 0)}|post|{f0['site']}|{f0['k']}|{core.digest(prehist)[:6]}")
        elif k == "page":
            names = sorted(expected_pages(op["src"], ["core"]))
            if names:
                name = names[int(op["pick"]) % len(names)]
                rel = name[:-4].replace(".", "/")
                fs.begin(0, op.get("faults"))
                is_pkg = os.path.isdir(os.path.join("symplyphysics", rel))
                P = _S["Path"]
                status = "ok"
                try:
                    if is_pkg:
                        build._process_law_package(P("symplyphysics", rel), [], [], OUT, True)  # pylint: disable=protected-access
                    else:
                        d, fn = os.path.split(rel)
                        build._process_law(P("symplyphysics", d), fn + ".py", OUT, True)  # pylint: disable=protected-access
                except OSError as e:
                    status = f"raised:OSError:{e.errno}"
                except Exception as e:  # pylint: disable=broad-except
                    status = f"raised:{type(e).__name__}:{str(e)[:160]}"
                fired = list(fs.fired)
                for f in fired:
                    faults[f"{f['site']}_fail"] = faults.get(f"{f['site']}_fail", 0) + 1
                text = fs.files.get(os.path.join(OUT, name))
                if not fired:
                    if status != "ok":
                        vios.append(V("total", f"page|{name}", f"generating page {name} alone failed: {status}").v)
                    elif text is None:
                        vios.append(V("pages", f"page-missing|{name}", f"page {name} was not written").v)
                    else:
                        if not _flag_ok():
                            vios.append(V("flag", "after-page", f"evaluation flag not default after page {name}").v)
                        if not is_pkg:
                            out_pages.setdefault("single", {})[name] = text
                        _check_symbol_tables(name, text, vios)
                        _check_pages_common(fs, {name: text}, vios, post=False)
                else:
                    probes["fault fired inside a single page"] = 1
                    if status == "ok" and not text:
                        vios.append(V("total", f"silent-failure|{fired[0]['site']}", f"an injected {fired[0]['errno']} at {fired[0]['site']}#{fired[0]['k']} was swallowed: page {name} missing or empty but the call returned normally").v)
                    if not _flag_ok():
                        probes["evaluation flag left off by an aborted generation (probe only)"] = 1
                        from sympy.core.parameters import global_parameters  # pylint: disable=import-outside-toplevel
                        global_parameters.evaluate = True
                outcome = f"{name}|{status}|{hashlib.sha256((text or '').encode()).hexdigest()[:12]}"
                f0 = fired[0] if fired else {"site": "-", "k": 0}
                states.append(f"{job['env'].get('hashseed')}|page|{name}|{f0['site']}|{f0['k']}|{core.digest(prehist)[:6]}")
                prehist.append("p" + name)
        elif k == "virtual":
            outcome, state_key = _run_virtual(fs, op, vios, faults, probes, aborted)
            states.append(f"{job['env'].get('hashseed')}|{state_key}")
        elif k == "probe":
            if aborted["pending"]:
                # an aborted generation did not "finish": its flag state is a probe, not a verdict
                probes["library use right after an aborted generation (flag not judged)"] = 1
                outcome = "skipped-after-abort"
            else:
                outcome = _probe(vios, f"(after step {step})")
        else:
            raise ValueError(k)
        events.append([step, k, outcome])
    fired_total = sum(v for kk, v in faults.items() if kk.endswith("_fail"))
    nontrivial = bool(fired_total or faults.get("printers_used_before") or faults["list_shuffle"] or faults["jump"] or faults["import_before"] or faults["repeat"] or faults["stale_output"] or faults.get("virtual_tree"))
    seen = set()
    uniq = []
    for v in vios:
        if v["cls"] not in seen:
            seen.add(v["cls"])
            uniq.append(v)
    return {"events": events, "digest": core.digest(events), "violations": uniq, "violation": uniq[0] if uniq else None, "faults": faults, "probes": probes, "inconclusive": [], "steps": steps, "nontrivial": nontrivial, "states": states, "gen": digests, "pages": out_pages}


# ============================================================================ driver side


def prepare(pool, tier, seed, stats):
    core.log("reference generation (full tree, sorted listing, env0) ...")
    job = reference_job()
    res = pool.run([job])[0]
    if res.get("status") != "ok":
        raise RuntimeError(f"reference generation failed: {res.get('status')} {res.get('error', '')[-800:]}")
    r = res["result"]
    ctx = {"ref_pre": r["pages"].get("gen1", {}), "ref_post": r["pages"].get("post1", {}), "ref_digest_pre": r["gen"]["gen1"]["pages"], "ref_digest_post": r["gen"]["post1"]["pages"], "prejudge": [(job, res)], "site_counts": r["gen"]["gen1"].get("site_counts")}
    core.log(f"  {len(ctx['ref_pre'])} pages generated, {len(ctx['ref_post'])} after post-processing, fault sites in a clean run: {ctx['site_counts']}")
    return ctx


def prepare_replay(pool, job):
    return prepare(pool, "quick", 0, None)


def judge(job, res, ctx):
    if res.get("status") != "ok":
        return []
    r = res["result"]
    out = list(r.get("violations") or [])
    if not ctx:
        return out
    seen = {v["cls"] for v in out}

    def add(oracle, subject, detail):
        cls = f"C19|{oracle}|{subject}"
        if cls not in seen:
            seen.add(cls)
            out.append({"oracle": oracle, "subject": subject, "detail": detail, "cls": cls})

    for key, g in (r.get("gen") or {}).items():
        if g.get("fired") or g.get("status") != "ok":
            continue
        is_post = key.startswith("post")
        src = g.get("src")
        if is_post:
            src = (r["gen"].get("gen" + key[4:]) or {}).get("src")
        ref = ctx["ref_digest_post"] if is_post else ctx["ref_digest_pre"]
        same_history = not g.get("prehistory") and key in ("gen1", "post1")
        for name, dig in sorted(g["pages"].items()):
            if name == "index.rst":
                continue
            rd = ref.get(name)
            if rd is None:
                continue
            if dig == rd:
                continue
            if same_history and src == "symplyphysics":
                add("deterministic", f"{'post' if is_post else 'page'}|{name}", f"{'post-processed ' if is_post else ''}page {name} differs from the reference generation although the history is the same (env {job['env']}, listing permutation {g.get('perm')})")
            else:
                # different history: only the skeleton must agree
                mine = ((r.get("pages") or {}).get(key) or {}).get(name)
                theirs = (ctx["ref_post"] if is_post else ctx["ref_pre"]).get(name)
                if mine is not None and theirs is not None and skeleton(mine) != skeleton(theirs):
                    add("faithful", f"skeleton|{name}", f"page {name} differs from the reference outside formula renderings (history {g.get('prehistory')})")
    for name, text in ((r.get("pages") or {}).get("single") or {}).items():
        theirs = ctx["ref_pre"].get(name)
        if theirs is not None and text != theirs and skeleton(text) != skeleton(theirs):
            add("faithful", f"skeleton|{name}", f"page {name} generated on its own differs from the reference outside formula renderings")
    return out


def simplify(job):
    out = []
    ops = job["ops"]
    for i, op in enumerate(ops):
        if op.get("faults"):
            for j in range(len(op["faults"])):
                out.append(dict(job, ops=ops[:i] + [dict(op, faults=op["faults"][:j] + op["faults"][j + 1:])] + ops[i + 1:]))
        if op.get("perm"):
            out.append(dict(job, ops=ops[:i] + [dict(op, perm=0)] + ops[i + 1:]))
        if op.get("stale"):
            out.append(dict(job, ops=ops[:i] + [dict(op, stale=False)] + ops[i + 1:]))
        if op["op"] == "generate" and op["src"] == "symplyphysics":
            for s in ("symplyphysics/laws/nuclear", "symplyphysics/laws/optics", "symplyphysics/laws/chemistry"):
                out.append(dict(job, ops=ops[:i] + [dict(op, src=s)] + ops[i + 1:]))
    if job["env"] != ENV0:
        out.append(dict(job, env=ENV0))
    return out


def finding_key(job, violation):
    return violation["cls"]


def extra_coverage(stats, ctx):
    return {"reference_pages": len((ctx or {}).get("ref_pre", {})), "fault_sites_in_clean_full_generation": (ctx or {}).get("site_counts"), "zygote_configurations": ENVS}
