"""Driver-side core of the deterministic simulator.

* one integer (VERIF_SEED) decides everything: `rng_for(seed, prop, run, stream)`
* a schedule is *generated* into an explicit op list (driver side, from the PRNG) and
  then *interpreted* (child side, never touches a PRNG or a clock)
* process model: driver -> zygote (fresh interpreter that did `import symplyphysics`
  from /repo and nothing else, with its own PYTHONHASHSEED / SYMPY_CACHE_SIZE)
  -> one forked child per run
* no threads anywhere; the driver multiplexes zygotes with `selectors`
"""
from __future__ import annotations

import collections
import hashlib
import json
import os
import random
import selectors
import signal
import subprocess
import sys
import time

VERIF = os.path.dirname(os.path.dirname(os.path.abspath(__file__)))
REPO = os.environ.get("VERIF_REPO", "/repo")
PY = os.environ.get("VERIF_PY", "/venv/bin/python")
DEFAULT_SEED = 20260927

PROP_MODULES = {
    "C14": "sim.c14_vectors",
    "C03": "sim.c03_history",
    "C09": "sim.c09_identity",
    "C19": "sim.c19_docs",
}


def rng_for(seed: int, prop: str, run: int | str, stream: str) -> random.Random:
    h = hashlib.sha256(f"{seed}/{prop}/{run}/{stream}".encode()).digest()
    return random.Random(int.from_bytes(h[:16], "big"))


def canon(obj) -> str:
    return json.dumps(obj, sort_keys=True, separators=(",", ":"), default=str)


def digest(obj) -> str:
    return hashlib.sha256(canon(obj).encode()).hexdigest()


def env_key(env: dict) -> str:
    return canon(env)


# --------------------------------------------------------------------------- zygotes

_NO_ASLR: list | None = None


def _no_aslr() -> list:
    """Zygotes run with address-space randomisation off (`setarch -R`) when the platform allows it, so
    that real object addresses -- which some defects depend on -- are the same in every interpreter
    started for the same schedule and a replay in a fresh interpreter sees the same layout."""
    global _NO_ASLR  # pylint: disable=global-statement
    if _NO_ASLR is None:
        _NO_ASLR = []
        import platform  # pylint: disable=import-outside-toplevel
        import shutil  # pylint: disable=import-outside-toplevel
        exe = shutil.which("setarch")
        if exe and os.environ.get("VERIF_ASLR", "off") == "off":
            cmd = [exe, platform.machine(), "-R"]
            try:
                if subprocess.run(cmd + ["true"], capture_output=True, timeout=10, check=False).returncode == 0:
                    _NO_ASLR = cmd
            except Exception:  # pylint: disable=broad-except
                pass
    return _NO_ASLR



class Zygote:

    def __init__(self, prop: str, env: dict):
        self.prop = prop
        self.env = env
        e = dict(os.environ)
        e["PYTHONHASHSEED"] = str(env.get("hashseed", 0))
        e["SYMPY_CACHE_SIZE"] = str(env.get("cache", 1000))
        e["PYTHONDONTWRITEBYTECODE"] = "1"
        e["VERIF_REPO"] = REPO
        e.pop("SYMPY_USE_CACHE", None)
        for k, v in (env.get("environ") or {}).items():
            e[k] = str(v)
        # experiment knob (never set by the registered commands): extra environment for every zygote
        for k, v in json.loads(os.environ.get("VERIF_EXTRA_ENVIRON") or "{}").items():
            e[k] = str(v)
        self.proc = subprocess.Popen(
            _no_aslr() + [PY, os.path.join(VERIF, "sim", "zygote.py"), prop],
            stdin=subprocess.PIPE,
            stdout=subprocess.PIPE,
            env=e,
            cwd=VERIF,
        )
        self.fd = self.proc.stdout.fileno()
        os.set_blocking(self.fd, False)
        self.buf = b""
        self.ready = False
        self.job = None  # index of the in-flight job
        self.sent_at = 0.0
        self.deadline = time.monotonic() + 300.0
        self.info = None

    def send(self, idx: int, job: dict) -> None:
        self.job = idx
        self.sent_at = time.monotonic()
        self.deadline = self.sent_at + float(job.get("timeout", 60)) + 30.0
        data = (canon(dict(job, idx=idx)) + "\n").encode()
        self.proc.stdin.write(data)
        self.proc.stdin.flush()

    def lines(self):
        """Non-blocking read; yields complete JSON lines. Sets self.eof."""
        while True:
            try:
                chunk = os.read(self.fd, 1 << 20)
            except BlockingIOError:
                break
            if not chunk:
                self.eof = True
                break
            self.buf += chunk
        while b"\n" in self.buf:
            line, self.buf = self.buf.split(b"\n", 1)
            if line.strip():
                yield json.loads(line)

    eof = False

    def close(self, kill: bool = False) -> None:
        try:
            if kill:
                self.proc.kill()
            else:
                self.proc.stdin.close()
        except Exception:  # pylint: disable=broad-except
            pass
        try:
            self.proc.wait(timeout=5)
        except Exception:  # pylint: disable=broad-except
            self.proc.kill()
            self.proc.wait()
        try:
            self.proc.stdout.close()
        except Exception:  # pylint: disable=broad-except
            pass


class Pool:
    """Runs jobs (dicts with 'env', 'ops', 'timeout') on up to `workers` zygotes.

    The result of a job depends only on (job, tree): every job runs in a fresh fork of a
    zygote whose state is exactly `import symplyphysics` under the job's env. Which zygote
    runs it, and when, is irrelevant -- so dynamic dispatch does not hurt determinism.
    """

    def __init__(self, prop: str, workers: int | None = None):
        self.prop = prop
        self.workers = workers or int(os.environ.get("VERIF_WORKERS", "0")) or (os.cpu_count() or 4)
        self.zygotes: list[Zygote] = []
        self.sel = selectors.DefaultSelector()
        self.spawned = 0
        self.jobs_run = 0

    # -- lifecycle
    def _spawn(self, env: dict) -> Zygote:
        z = Zygote(self.prop, env)
        self.zygotes.append(z)
        self.sel.register(z.fd, selectors.EVENT_READ, z)
        self.spawned += 1
        return z

    def _retire(self, z: Zygote, kill: bool = False) -> None:
        try:
            self.sel.unregister(z.fd)
        except Exception:  # pylint: disable=broad-except
            pass
        self.zygotes.remove(z)
        z.close(kill=kill)

    def close(self) -> None:
        for z in list(self.zygotes):
            self._retire(z)

    # -- main entry
    def run(self, jobs: list[dict], progress=None) -> list[dict]:
        results: list[dict | None] = [None] * len(jobs)
        queues: dict[str, collections.deque] = collections.defaultdict(collections.deque)
        envs: dict[str, dict] = {}
        for i, job in enumerate(jobs):
            k = env_key(job["env"])
            queues[k].append(i)
            envs[k] = job["env"]
        remaining = len(jobs)
        done = 0

        def active(k):
            return sum(1 for z in self.zygotes if env_key(z.env) == k)

        while remaining:
            # 1. hand work to idle zygotes / retire useless ones
            for z in list(self.zygotes):
                if not z.ready or z.job is not None:
                    continue
                k = env_key(z.env)
                if queues[k]:
                    i = queues[k].popleft()
                    z.send(i, jobs[i])
            # 2. spawn zygotes for envs with pending work
            while True:
                pending = [(len(q) / (active(k) + 1), k) for k, q in queues.items() if q and len(q) > sum(1 for z in self.zygotes if env_key(z.env) == k and z.job is None)]
                if not pending:
                    break
                pending.sort(reverse=True)
                k = pending[0][1]
                if len(self.zygotes) >= self.workers:
                    idle = [z for z in self.zygotes if z.ready and z.job is None and not queues[env_key(z.env)]]
                    if not idle:
                        break
                    # a respawn costs ~1.5 s of CPU: only worth it for a real backlog
                    slow = any(z.job is not None and env_key(z.env) == k and time.monotonic() - z.sent_at > 2.0 for z in self.zygotes)
                    if active(k) > 0 and len(queues[k]) / active(k) < 8 and not slow:
                        break
                    self._retire(idle[0])
                self._spawn(envs[k])
            # 3. wait for output
            events = self.sel.select(timeout=1.0)
            now = time.monotonic()
            for key, _ in events:
                z: Zygote = key.data
                for msg in z.lines():
                    if "ready" in msg:
                        z.ready = True
                        z.info = msg
                        z.deadline = float("inf")
                        continue
                    i = msg.pop("idx")
                    results[i] = msg
                    z.job = None
                    z.deadline = float("inf")
                    remaining -= 1
                    done += 1
                    self.jobs_run += 1
                    if progress:
                        progress(done, len(jobs))
                if z.eof:
                    if z.job is not None:
                        results[z.job] = {"status": "zygote_died", "result": None}
                        remaining -= 1
                        z.job = None
                    elif not z.ready:
                        raise RuntimeError(f"zygote failed to start for env {z.env} (exit {z.proc.poll()})")
                    self._retire(z, kill=True)
            for z in list(self.zygotes):
                if now > z.deadline:
                    if z.job is not None:
                        results[z.job] = {"status": "zygote_hung", "result": None}
                        remaining -= 1
                        z.job = None
                        self._retire(z, kill=True)
                    elif not z.ready:
                        self._retire(z, kill=True)
                        raise RuntimeError("zygote did not become ready in 300 s")
        return results  # type: ignore[return-value]


def run_fresh(prop: str, job: dict) -> dict:
    """Runs one job in a brand-new zygote (fresh interpreter), used to confirm replays."""
    pool = Pool(prop, workers=1)
    try:
        return pool.run([job])[0]
    finally:
        pool.close()


# --------------------------------------------------------------------------- minimisation


def ddmin(ops: list, test_many, min_len: int = 1) -> list:
    """Classic ddmin over a list; `test_many(list_of_candidates) -> list[bool]` evaluates
    candidates in parallel, and the first (lowest index) failing candidate is taken, so the
    outcome is deterministic."""
    n = 2
    while len(ops) > min_len:
        size = max(1, len(ops) // n)
        chunks = [(i, min(len(ops), i + size)) for i in range(0, len(ops), size)]
        cands = [ops[:a] + ops[b:] for a, b in chunks]
        cands = [c for c in cands if len(c) >= min_len]
        if not cands:
            break
        verdicts = test_many(cands)
        hit = next((c for c, v in zip(cands, verdicts) if v), None)
        if hit is not None:
            ops = hit
            n = max(n - 1, 2)
        elif size == 1:
            break
        else:
            n = min(len(ops), n * 2)
    return ops


# --------------------------------------------------------------------------- bookkeeping


class Stats:

    def __init__(self):
        self.runs = 0
        self.steps = 0
        self.faults = collections.Counter()
        self.probes = collections.Counter()
        self.inconclusive = collections.Counter()
        self.status = collections.Counter()
        self.digests_nontrivial: set[str] = set()
        self.digests: set[str] = set()
        self.states: set[str] = set()
        self.samples: list = []
        self.extra: dict = {}

    def add_result(self, job: dict, res: dict) -> None:
        self.runs += 1
        self.status[res.get("status", "?")] += 1
        r = res.get("result") or {}
        self.steps += int(r.get("steps", 0))
        for k, v in (r.get("faults") or {}).items():
            self.faults[k] += v
        for k, v in (r.get("probes") or {}).items():
            self.probes[k] += 1 if v else 0
        for k in r.get("inconclusive") or []:
            self.inconclusive[k] += 1
        d = r.get("digest")
        if d:
            self.digests.add(d)
            if r.get("nontrivial"):
                self.digests_nontrivial.add(d)
        for s in r.get("states") or []:
            self.states.add(s)
        if r.get("probe_universe"):
            self.extra["probe_universe"] = r["probe_universe"]


def load_known(prop: str) -> list[dict]:
    path = os.path.join(VERIF, "known_findings.json")
    if not os.path.exists(path):
        return []
    with open(path) as f:
        data = json.load(f)
    return [e for e in data.get("findings", []) if e.get("property") == prop]


def write_evidence(prop: str, tier: str, seed: int, coverage: dict, assumptions: list[str], wall_s: float, violations: int) -> str:
    os.makedirs(os.path.join(VERIF, "evidence"), exist_ok=True)
    path = os.path.join(VERIF, "evidence", f"{prop}.json")
    if os.path.realpath(REPO) != "/repo":
        # a sensitivity run against a scratch copy must not overwrite the evidence about /repo
        path = f"/tmp/verif_evidence_{prop}_{os.getpid()}.json"
    ev = {
        "property_id": prop,
        "tier": tier,
        "seed": seed,
        "level": "exploration",
        "coverage": coverage,
        "assumptions": assumptions,
        "wall_s": round(wall_s, 2),
        "violations": violations,
    }
    tmp = path + ".tmp"
    with open(tmp, "w") as f:
        json.dump(ev, f, indent=1, sort_keys=True, default=str)
        f.write("\n")
    os.replace(tmp, path)
    return path


def write_replay(prop: str, name: str, payload: dict) -> str:
    d = os.path.join(VERIF, "replays", prop)
    os.makedirs(d, exist_ok=True)
    path = os.path.join(d, name + ".json")
    with open(path, "w") as f:
        json.dump(payload, f, indent=1, sort_keys=True, default=str)
        f.write("\n")
    return path


def log(*a) -> None:
    print(*a, flush=True)
