"""In-process file-system seam for the docs generator (C19).

The generator modules look up `open`, `os`, `Path` (and `shutil`) as *module globals*; the
simulator shadows those names with the objects below. Everything under the virtual output
directory lives in memory; source files are read from the real tree (or from a virtual source
tree when one is mounted). Directory listings come back in a seeded permutation, and every
open / read / write / close / mkdir is a numbered fault site.
"""
from __future__ import annotations

import errno as _errno
import hashlib
import io
import os as _os
import pathlib

ERRNO = {"ENOSPC": _errno.ENOSPC, "EIO": _errno.EIO, "EACCES": _errno.EACCES}


class SimFS:

    def __init__(self, outdir: str):
        self.outdir = outdir.rstrip("/")
        self.files: dict[str, str] = {}   # decoded view of the output files (what the oracles read)
        self.blobs: dict[str, bytes] = {}  # their bytes (what an r+ open sees)
        # only the parent of the output directory exists at first: the generator creates the rest
        self.dirs: set[str] = {_os.path.dirname(self.outdir)}
        # simulated locale encoding: what a text file opened *without* an explicit encoding gets
        self.locale_encoding = "utf-8"
        self.vsrc: dict[str, str] | None = None  # virtual source tree: path -> content
        self.vroot: str | None = None
        self.perm_seed = 0
        self.faults: list[dict] = []
        self.counts: dict[str, int] = {}
        self.fired: list[dict] = []
        self.write_opens: dict[str, int] = {}
        self.log: list = []
        # logical modification times (ns); far above any real file's mtime, no wall clock involved
        self.clock = 4_000_000_000_000_000_000
        self.mtimes: dict[str, int] = {}

    def wipe(self) -> None:
        """`--wipe-generated`: the output directory and everything below it disappear."""
        self.files.clear()
        self.blobs.clear()
        self.dirs = {d for d in self.dirs if not (d == self.outdir or d.startswith(self.outdir + "/"))}
        for k in [k for k in self.mtimes if k == self.outdir or k.startswith(self.outdir + "/")]:
            del self.mtimes[k]

    def tick(self) -> int:
        self.clock += 1_000_000
        return self.clock

    def mount_source(self, files: dict, root: str, newer: set | None = None) -> None:
        """Mounts a virtual source tree; files named in `newer` get a fresh mtime (an edit)."""
        self.vsrc = files
        self.vroot = root
        for pth in files:
            if pth not in self.mtimes:
                self.mtimes[pth] = self.tick()
        for pth in sorted(newer or ()):
            self.mtimes[pth] = self.tick()

    # ---- configuration per op
    def begin(self, perm_seed: int, faults) -> None:
        self.perm_seed = perm_seed
        self.faults = [dict(f) for f in (faults or [])]
        self.counts = {}
        self.fired = []
        self.write_opens = {}

    def site(self, kind: str, path: str = "") -> None:
        """A numbered fault site; raises OSError if the schedule says so."""
        n = self.counts.get(kind, 0) + 1
        self.counts[kind] = n
        for f in self.faults:
            if f["site"] == kind and f["k"] == n and not f.get("done"):
                f["done"] = True
                self.fired.append({"site": kind, "k": n, "errno": f.get("errno", "EIO"), "path": path})
                code = ERRNO[f.get("errno", "EIO")]
                raise OSError(code, _os.strerror(code), path)

    # ---- helpers
    def inside(self, path) -> bool:
        p = _os.path.normpath(str(path))
        return p == self.outdir or p.startswith(self.outdir + "/")

    def in_vsrc(self, path) -> bool:
        if self.vsrc is None:
            return False
        p = _os.path.normpath(str(path))
        return p == self.vroot or p.startswith(self.vroot + "/")

    def order(self, where: str, names: list[str]) -> list[str]:
        """Seeded permutation of a directory listing (perm_seed 0 = sorted)."""
        names = sorted(names)
        if not self.perm_seed:
            return names
        return sorted(names, key=lambda n: hashlib.sha256(f"{self.perm_seed}/{where}/{n}".encode()).digest())

    # ---- the shims
    def open(self, file, mode="r", *args, **kwargs):
        path = _os.path.normpath(str(file))
        enc = kwargs.get("encoding") or (args[1] if len(args) > 1 else None)
        if enc in (None, "locale"):
            enc = self.locale_encoding
        if self.inside(path):
            if "w" in mode:
                self.site("wopen", path)
                if _os.path.dirname(path) not in self.dirs:
                    raise FileNotFoundError(_errno.ENOENT, "No such file or directory", path)
                self.write_opens[path] = self.write_opens.get(path, 0) + 1
                self.files[path] = ""  # "w" truncates at open
                self.blobs[path] = b""
                return SimFile(self, path, b"", truncate_first=True, encoding=enc)
            if "+" in mode or "a" in mode:  # r+ : read/modify in place
                self.site("wopen", path)
                if path not in self.files:
                    raise FileNotFoundError(_errno.ENOENT, "No such file or directory", path)
                self.write_opens[path] = self.write_opens.get(path, 0) + 1
                return SimFile(self, path, self._bytes(path), truncate_first=False, encoding=enc)
            self.site("ropen", path)
            if path not in self.files:
                raise FileNotFoundError(_errno.ENOENT, "No such file or directory", path)
            return SimFile(self, path, self._bytes(path), truncate_first=False, readonly=True, encoding=enc)
        if self.in_vsrc(path):
            self.site("ropen", path)
            if path not in self.vsrc:
                raise FileNotFoundError(_errno.ENOENT, "No such file or directory", path)
            return SimFile(self, path, self.vsrc[path].encode("utf-8"), truncate_first=False, readonly=True, encoding=enc)
        self.site("ropen", path)
        if "b" not in mode and not kwargs.get("encoding") and len(args) < 2:
            kwargs["encoding"] = self.locale_encoding  # a real open() would take the locale's encoding
        return SourceFile(self, open(file, mode, *args, **kwargs), path)

    def _bytes(self, path: str) -> bytes:
        """Bytes of an output file (files pre-populated by the harness as text are encoded)."""
        b = self.blobs.get(path)
        if b is None or b.decode("utf-8", errors="replace") != self.files[path]:
            b = self.files[path].encode("utf-8")
        return b

    def mkdir(self, path: str, exist_ok: bool, parents: bool = False) -> None:
        path = _os.path.normpath(path)
        self.site("mkdir", path)
        if path in self.dirs:
            if not exist_ok:
                raise FileExistsError(_errno.EEXIST, "File exists", path)
            return
        parent = _os.path.dirname(path)
        if parent not in self.dirs:
            if not parents:
                raise FileNotFoundError(_errno.ENOENT, "No such file or directory", path)
            self.mkdir(parent, True, True)
        self.dirs.add(path)

    def listdir_out(self, path: str) -> list[str]:
        path = _os.path.normpath(path)
        names = {p[len(path) + 1:].split("/")[0] for p in list(self.files) + list(self.dirs) if p.startswith(path + "/")}
        return self.order(path, list(names))

    def walk(self, top):
        """os.walk (top-down) with seeded listing order; honours in-place edits of `dirs`."""
        top = str(top)
        if self.in_vsrc(top):
            pref = _os.path.normpath(top) + "/"
            names = {p[len(pref):].split("/")[0] for p in self.vsrc if p.startswith(pref)}
            dirs = [n for n in names if any(p.startswith(pref + n + "/") for p in self.vsrc)]
            files = [n for n in names if (pref + n) in self.vsrc]
        else:
            try:
                names = _os.listdir(top)
            except OSError:
                return
            dirs = [n for n in names if _os.path.isdir(_os.path.join(top, n))]
            files = [n for n in names if not _os.path.isdir(_os.path.join(top, n))]
        dirs = self.order(top + "#d", dirs)
        files = self.order(top + "#f", files)
        yield top, dirs, files
        for d in dirs:
            yield from self.walk(_os.path.join(top, d))


class SimFile(io.TextIOWrapper):
    """In-memory text file: a real `io.TextIOWrapper` over a `BytesIO`, so that encoding errors,
    `truncate()` (bytes, not characters) and `seek()` behave exactly as on a real file. The bytes
    are committed to the SimFS at close (and partially on a failed write, like a torn write)."""

    def __init__(self, fs: "SimFS", path: str, initial: bytes, truncate_first: bool, readonly: bool = False, encoding: str = "utf-8"):
        super().__init__(io.BytesIO(b"" if truncate_first else initial), encoding=encoding, newline=None if readonly else "", write_through=True)
        self.fs = fs
        self.path = path
        self.readonly = readonly

    def _commit(self) -> None:
        self.flush()
        data = self.buffer.getvalue()
        self.fs.blobs[self.path] = data
        self.fs.files[self.path] = data.decode("utf-8", errors="replace")
        self.fs.mtimes[self.path] = self.fs.tick()

    def read(self, *a):
        self.fs.site("read", self.path)
        return super().read(*a)

    def write(self, s):
        if self.readonly:
            raise io.UnsupportedOperation("not writable")
        try:
            self.fs.site("write", self.path)
        except OSError:
            super().write(s[:len(s) // 2])  # torn write: half of the data made it
            self._commit()
            raise
        return super().write(s)

    def close(self):
        if not self.closed and not self.readonly:
            self._commit()
            super().close()
            self.fs.site("close", self.path)
            return
        super().close()

    def __exit__(self, *exc):
        self.close()
        return False


class SourceFile:
    """Real source file with fault sites on read."""

    def __init__(self, fs: SimFS, fh, path: str):
        self.fs = fs
        self.fh = fh
        self.path = path

    def read(self, *a):
        self.fs.site("read", self.path)
        return self.fh.read(*a)

    def __enter__(self):
        return self

    def __exit__(self, *exc):
        self.fh.close()
        return False

    def __getattr__(self, name):
        return getattr(self.fh, name)


def make_path_class(fs: SimFS):

    class SimPath(pathlib.PosixPath):
        """`Path` as seen by the generator: mkdir / iterdir / exists under the virtual output
        directory go to the SimFS."""

        def mkdir(self, mode=0o777, parents=False, exist_ok=False):
            if fs.inside(self):
                return fs.mkdir(str(self), exist_ok, parents)
            return super().mkdir(mode, parents, exist_ok)

        def iterdir(self):
            if fs.inside(self):
                fs.site("listdir", str(self))
                for n in fs.listdir_out(str(self)):
                    yield self / n
                return
            yield from super().iterdir()

        def exists(self, **kw):
            if fs.inside(self):
                p = _os.path.normpath(str(self))
                return p in fs.files or p in fs.dirs
            if fs.in_vsrc(self):
                p = _os.path.normpath(str(self))
                return p in fs.vsrc or any(q.startswith(p + "/") for q in fs.vsrc)
            return super().exists(**kw)

        def open(self, mode="r", buffering=-1, encoding=None, errors=None, newline=None):
            if fs.inside(self) or fs.in_vsrc(self):
                return fs.open(str(self), mode, encoding=encoding)
            return super().open(mode, buffering, encoding, errors, newline)

        def stat(self, **kw):
            pth = _os.path.normpath(str(self))
            if fs.inside(self) or fs.in_vsrc(self):
                known = pth in fs.files or pth in fs.dirs or (fs.vsrc is not None and (pth in fs.vsrc or any(q.startswith(pth + "/") for q in fs.vsrc)))
                if not known:
                    raise FileNotFoundError(_errno.ENOENT, "No such file or directory", pth)
                m = fs.mtimes.get(pth, fs.clock)
                return _os.stat_result((0o100644, 0, 0, 1, 0, 0, len(fs.files.get(pth, "")), m // 10**9, m // 10**9, m // 10**9, m / 1e9, m / 1e9, m / 1e9, m, m, m))
            return super().stat(**kw)

        def samefile(self, other):
            if fs.in_vsrc(self) or fs.in_vsrc(other):
                return _os.path.normpath(str(self)) == _os.path.normpath(str(other))
            try:
                return super().samefile(other)
            except FileNotFoundError:
                return False

    return SimPath


class OsProxy:
    """`os` as seen by symplyphysics.docs.build: only `walk` is simulated."""

    def __init__(self, fs: SimFS):
        self._fs = fs

    def walk(self, top, *a, **k):
        return self._fs.walk(top)

    def __getattr__(self, name):
        return getattr(_os, name)


class ShutilProxy:

    def __init__(self, fs: SimFS):
        self._fs = fs

    def copyfile(self, src, dst, **_k):
        with open(src, "r", encoding="utf-8") as f:
            data = f.read()
        with self._fs.open(dst, "w") as out:
            out.write(data)
        return dst

    def rmtree(self, path, ignore_errors=False, **_k):
        p = _os.path.normpath(str(path))
        if self._fs.inside(p):
            for k in [k for k in self._fs.files if k.startswith(p + "/")]:
                del self._fs.files[k]
            self._fs.dirs = {d for d in self._fs.dirs if not d.startswith(p + "/")}
            return
        raise PermissionError("simulated shutil refuses to delete real directories")
