"""History-independent observation of a catalogue module (child side).

Everything here must give the same answer for the same *meaning* regardless of the
internal names (SYM<n>, FUN<n>, QTY<n>) objects happen to have: atoms are identified by a
stable key found by *identity search* in history-independent namespaces, never by name.
"""
from __future__ import annotations

import hashlib
import importlib
import inspect
import signal
import sys
import types

EQ_WALL_S = 3.0
CALL_WALL_S = 15.0
CATALOGUE = ("symplyphysics.laws", "symplyphysics.definitions", "symplyphysics.conditions")


class _Timeout(Exception):
    pass


def _on_alarm(_s, _f):
    raise _Timeout()


class timebox:

    def __init__(self, seconds):
        self.seconds = seconds

    def __enter__(self):
        self.old = signal.signal(signal.SIGALRM, _on_alarm)
        signal.setitimer(signal.ITIMER_REAL, self.seconds)

    def __exit__(self, *exc):
        signal.setitimer(signal.ITIMER_REAL, 0)
        signal.signal(signal.SIGALRM, self.old)
        return False


def _h(key: str, salt: str) -> float:
    d = hashlib.sha256(f"{salt}|{key}".encode()).digest()
    return 0.5 + 2.5 * (int.from_bytes(d[:8], "big") / 2**64)


# ------------------------------------------------------------------ stable keys


def _is_catalogue_module(obj) -> bool:
    return isinstance(obj, types.ModuleType) and obj.__name__.startswith("symplyphysics.")


def _namespaces(mod) -> list:
    """History-independent list of namespaces to search: the module itself, the always-loaded
    symbols/quantities tables, then the modules its namespace refers to (depth 2), sorted."""
    import symplyphysics  # pylint: disable=import-outside-toplevel
    out = [mod]
    seen = {id(mod)}
    base = []
    for name in sorted(n for n in sys.modules if n.startswith("symplyphysics.symbols")):
        base.append(sys.modules[name])
    base.append(symplyphysics.quantities)
    level = [mod]
    deps = []
    for _depth in range(2):
        nxt = []
        for m in level:
            for attr in sorted(vars(m)):
                v = vars(m)[attr]
                if _is_catalogue_module(v) and id(v) not in seen:
                    seen.add(id(v))
                    nxt.append(v)
        deps.extend(sorted(nxt, key=lambda m: m.__name__))
        level = nxt
    for m in base:
        if id(m) not in seen:
            seen.add(id(m))
            out.append(m)
    out.extend(deps)
    return out


def _index_namespace(m, table: dict) -> None:
    from sympy import Basic  # pylint: disable=import-outside-toplevel
    from sympy.core.function import FunctionClass  # pylint: disable=import-outside-toplevel
    short = m.__name__
    for attr in sorted(vars(m)):
        if attr.startswith("__"):
            continue
        v = vars(m)[attr]
        if isinstance(v, (Basic, FunctionClass)):
            table.setdefault(id(v), f"{short}.{attr}")
        elif isinstance(v, (list, tuple)):
            for i, x in enumerate(v):
                if isinstance(x, (Basic, FunctionClass)):
                    table.setdefault(id(x), f"{short}.{attr}[{i}]")


def stable_keys(mod) -> dict:
    table: dict[int, str] = {}
    for m in _namespaces(mod):
        _index_namespace(m, table)
    return table


def _fallback_key(obj) -> str:
    dn = getattr(obj, "display_name", None)
    dim = getattr(obj, "dimension", None)
    ass = sorted((k, v) for k, v in (getattr(obj, "assumptions0", {}) or {}).items() if v is not None)
    return f"?{type(obj).__name__}|{dn}|{dim}|{ass}"


# ------------------------------------------------------------------ fingerprints


def _numeric_fingerprint(expr, keys: dict, salt: str):
    """Evaluates `expr` at the environment key -> value(key, salt). Returns a string."""
    import sympy as sp  # pylint: disable=import-outside-toplevel
    from sympy.core.function import AppliedUndef  # pylint: disable=import-outside-toplevel
    from sympy.physics.units import Quantity as SymQuantity  # pylint: disable=import-outside-toplevel

    def key_of(o):
        return keys.get(id(o)) or _fallback_key(o)

    # 1. undefined functions -> fixed polynomials of their arguments (so Derivative/Integral evaluate)
    def poly(e):
        k = key_of(e.func)
        r = sp.Float(_h(k + "#c0", salt), 30)
        for i, a in enumerate(e.args):
            c1 = sp.Float(_h(f"{k}#a{i}", salt), 30)
            c2 = sp.Float(_h(f"{k}#b{i}", salt), 30)
            r = r + c1 * a + c2 * a**2 / 7
        return r

    e = expr
    if e.has(AppliedUndef):
        e = e.replace(lambda x: isinstance(x, AppliedUndef), poly)
    e = e.doit()
    sub = {}
    for a in e.atoms(sp.Symbol, SymQuantity, sp.Indexed, sp.IndexedBase):
        if isinstance(a, sp.Idx) or getattr(a, "is_Idx", False):
            continue
        if isinstance(a, SymQuantity):
            # a named constant (found by identity in a history-independent namespace) is an atom of
            # the formula like any symbol: give it a hashed O(1) value (scale factors such as
            # hbar = 1e-34 make phases like exp(i*E*t/hbar) numerically meaningless). Anonymous
            # quantities and plain units are identified by their SI scale factor.
            if id(a) in keys:
                sub[a] = sp.Float(_h(keys[id(a)], salt), 30)
            else:
                try:
                    sub[a] = sp.Float(complex(a.scale_factor).real, 30) if complex(a.scale_factor).imag == 0 else sp.sympify(complex(a.scale_factor))
                except Exception:  # pylint: disable=broad-except
                    sub[a] = sp.Float(_h(_fallback_key(a), salt), 30)
        elif isinstance(a, sp.Indexed):
            sub[a] = sp.Float(_h(key_of(a.base) + str(a.indices), salt), 30)
        elif isinstance(a, sp.IndexedBase):
            continue
        else:
            sub[a] = sp.Float(_h(key_of(a), salt), 30)
    val = e.subs(sub)
    val = sp.N(val, 20)
    if isinstance(val, sp.MatrixBase):
        parts = [sp.N(x, 20) for x in val]
        if all(p.is_number for p in parts):
            return "M:" + ",".join(_numstr(p) for p in parts)
        return None
    if getattr(val, "is_number", False) and not val.has(sp.Symbol):
        return "N:" + _numstr(val)
    return None


def _numstr(v) -> str:
    import sympy as sp  # pylint: disable=import-outside-toplevel
    if v in (sp.nan, sp.zoo, sp.oo, -sp.oo):
        return str(v)
    re, im = v.as_real_imag()
    return f"{float(re):.13e}" + (f"{float(im):+.13e}j" if im != 0 else "")


def _structural_fingerprint(expr, keys: dict) -> str:
    """srepr after renaming every atom to a plain symbol named by its stable key (which makes
    SymPy re-canonicalise argument order by the stable names)."""
    import sympy as sp  # pylint: disable=import-outside-toplevel
    from sympy.core.function import AppliedUndef  # pylint: disable=import-outside-toplevel
    from sympy.physics.units import Quantity as SymQuantity  # pylint: disable=import-outside-toplevel
    sub = {}
    for a in expr.atoms(sp.Symbol, SymQuantity):
        sub[a] = sp.Symbol("k_" + (keys.get(id(a)) or _fallback_key(a)))
    e = expr.xreplace(sub)
    for f in {x.func for x in e.atoms(AppliedUndef)}:
        e = e.replace(f, sp.Function("k_" + (keys.get(id(f)) or _fallback_key(f))))
    try:
        return "S:" + hashlib.sha256(sp.srepr(e).encode()).hexdigest()[:16]
    except Exception as ex:  # pylint: disable=broad-except
        return "S:err:" + type(ex).__name__


def fingerprint(expr, keys: dict) -> list:
    """[kind, value...] ; kind 'num' (comparable numerically) or 'struct' (suspect-only)."""
    import sympy as sp  # pylint: disable=import-outside-toplevel
    sides = [expr.lhs, expr.rhs] if isinstance(expr, sp.core.relational.Relational) else [expr]
    out = []
    numeric = True
    for side in sides:
        for salt in ("p0", "p1"):
            try:
                with timebox(EQ_WALL_S):
                    fp = _numeric_fingerprint(sp.sympify(side), keys, salt)
            except _Timeout:
                return ["timeout"]
            except Exception:  # pylint: disable=broad-except
                fp = None
            if fp is None:
                numeric = False
                break
            out.append(fp)
        if not numeric:
            break
    if numeric:
        rel = type(expr).__name__
        return ["num", rel] + out
    try:
        with timebox(EQ_WALL_S):
            return ["struct", _structural_fingerprint(expr, keys)]
    except _Timeout:
        return ["timeout"]
    except Exception as ex:  # pylint: disable=broad-except
        return ["struct", "err:" + type(ex).__name__]


# ------------------------------------------------------------------ calculate_* outcomes


def decorator_specs(func):
    """(input specs, has output spec) recovered from the closure chain of the validators."""
    specs = {}
    f = func
    depth = 0
    while f is not None and depth < 8:
        try:
            cv = inspect.getclosurevars(f)
        except TypeError:
            break
        kw = cv.nonlocals.get("decorator_kwargs")
        if isinstance(kw, dict):
            specs.update(kw)
        f = getattr(f, "__wrapped__", None)
        depth += 1
    return specs


def _spec_dimension(spec):
    from sympy.physics.units import Dimension, Quantity as SymQuantity  # pylint: disable=import-outside-toplevel
    if isinstance(spec, Dimension):
        return spec
    d = getattr(spec, "dimension", None)
    if isinstance(d, Dimension):
        return d
    if isinstance(spec, SymQuantity):
        from symplyphysics.core.dimensions.collect_quantity import collect_quantity_factor_and_dimension  # pylint: disable=import-outside-toplevel
        return collect_quantity_factor_and_dimension(spec)[1]
    return None


def build_arguments(modname: str, fname: str, func, jitter: float = 1.0, seqlen: int = 3):
    """Quantity arguments for a guarded function, or None if some parameter has no usable spec."""
    from sympy.physics.units import Dimension  # pylint: disable=import-outside-toplevel
    from symplyphysics import Quantity  # pylint: disable=import-outside-toplevel
    from symplyphysics.core.dimensions import dimension_to_si_unit  # pylint: disable=import-outside-toplevel
    specs = decorator_specs(func)
    try:
        sig = inspect.signature(func)
    except (TypeError, ValueError):
        return None
    args = {}
    for p in sig.parameters.values():
        if p.kind in (p.VAR_POSITIONAL, p.VAR_KEYWORD):
            return None
        spec = specs.get(p.name)
        if spec is None:
            if p.default is not p.empty:
                continue
            return None
        ann = str(p.annotation)

        def quantity(spec_, tag):
            dim = _spec_dimension(spec_)
            if not isinstance(dim, Dimension) or type(dim).__name__ == "AnyDimension":
                return None
            val = _h(f"{modname}.{fname}.{p.name}{tag}", "arg") * jitter
            return Quantity(val * dimension_to_si_unit(dim))

        if isinstance(spec, (list, tuple)):
            items = [quantity(s_, f"[{i}]") for i, s_ in enumerate(spec)]
            if any(x is None for x in items):
                return None
            args[p.name] = items if "Vector" not in ann else None
            if args[p.name] is None:
                return None
        elif "QuantityVector" in ann:
            from symplyphysics import QuantityVector  # pylint: disable=import-outside-toplevel
            items = [quantity(spec, f"[{i}]") for i in range(3)]
            if any(x is None for x in items):
                return None
            args[p.name] = QuantityVector(items)
        elif any(t in ann for t in ("Sequence", "list[", "List[", "tuple[", "Tuple[")):
            items = [quantity(spec, f"[{i}]") for i in range(seqlen)]
            if any(x is None for x in items):
                return None
            args[p.name] = items
        else:
            q = quantity(spec, "")
            if q is None:
                return None
            args[p.name] = q
    return args


def _outcome(ret):
    from sympy.physics.units import Quantity as SymQuantity  # pylint: disable=import-outside-toplevel
    from sympy.physics.units.systems.si import SI  # pylint: disable=import-outside-toplevel
    import sympy as sp  # pylint: disable=import-outside-toplevel
    if isinstance(ret, SymQuantity):
        sf = complex(sp.N(ret.scale_factor))
        deps = SI.get_dimension_system().get_dimensional_dependencies(ret.dimension, mark_dimensionless=True) if hasattr(ret, "dimension") else {}
        dim = ",".join(f"{k}^{v}" for k, v in sorted((str(getattr(k, "name", k)), str(v)) for k, v in deps.items()))
        return ["q", sf.real, sf.imag, dim]
    if isinstance(ret, (int, float)):
        return ["f", float(ret), 0.0, ""]
    if isinstance(ret, complex):
        return ["f", ret.real, ret.imag, ""]
    if isinstance(ret, bool):
        return ["b", ret]
    comps = getattr(ret, "components", None)
    if comps is not None:
        return ["vec"] + [_outcome(c) for c in comps]
    if isinstance(ret, (list, tuple)):
        return ["seq"] + [_outcome(c) for c in ret]
    if isinstance(ret, sp.Basic):
        try:
            v = complex(sp.N(ret))
            return ["f", v.real, v.imag, ""]
        except Exception:  # pylint: disable=broad-except
            return ["expr", str(type(ret).__name__)]
    return ["other", type(ret).__name__]


def guarded_functions(mod):
    for fname in sorted(vars(mod)):
        if fname.startswith("_"):
            continue
        func = vars(mod)[fname]
        if not inspect.isfunction(func) or getattr(func, "__module__", None) != mod.__name__:
            continue
        if hasattr(func, "__wrapped__"):
            yield fname, func


def prepare_arguments(mod) -> dict:
    """Argument quantities for every guarded function, created now and used (much) later."""
    out = {}
    for fname, func in guarded_functions(mod):
        try:
            out[fname] = build_arguments(mod.__name__, fname, func)
        except Exception:  # pylint: disable=broad-except
            out[fname] = None
    return out


def _rel_diff(a, b) -> float:
    """Largest relative difference between two outcomes of the same shape (inf if shapes differ)."""
    if isinstance(a, list) and isinstance(b, list) and len(a) == len(b):
        if a and a[0] in ("q", "f") and len(a) == 4:
            za, zb = complex(a[1], a[2]), complex(b[1], b[2])
            if za != za or zb != zb:
                return 0.0 if (za != za) == (zb != zb) else float("inf")
            return abs(za - zb) / max(abs(za), abs(zb), 1e-300)
        return max([_rel_diff(x, y) for x, y in zip(a, b)] or [0.0])
    return 0.0 if a == b else float("inf")


def call_functions(mod, only=None, prepared=None, jitter: float = 1.0, conditioning: bool = False, seqlen: int = 3) -> dict:
    """Outcome of every guarded function on its argument tuple. With `conditioning` each returning
    function is called once more with arguments perturbed by 1e-13 (relative): if the result moves
    by more than 1e-7 the function is numerically ill-conditioned at these arguments (e.g. a phase
    E*t/hbar of 1e34 rad) and its floating-point value is rounding noise, not meaning."""
    out = {}
    for fname in sorted(vars(mod)):
        if fname.startswith("_"):
            continue
        func = vars(mod)[fname]
        if not inspect.isfunction(func) or getattr(func, "__module__", None) != mod.__name__:
            continue
        if not hasattr(func, "__wrapped__"):
            continue
        if only is not None and fname not in only:
            continue
        try:
            if prepared is not None and prepared.get(fname) is not None:
                args = prepared[fname]
            else:
                args = build_arguments(mod.__name__, fname, func, jitter, seqlen)
        except Exception as ex:  # pylint: disable=broad-except
            out[fname] = ["argerror", type(ex).__name__]
            continue
        if args is None:
            out[fname] = ["skipped"]
            continue
        try:
            with timebox(CALL_WALL_S):
                ret = func(**args)
                out[fname] = ["ret", _outcome(ret)]
            if conditioning and prepared is None:
                try:
                    with timebox(CALL_WALL_S):
                        ret2 = func(**build_arguments(mod.__name__, fname, func, jitter * (1 + 1e-13)))
                    if _rel_diff(out[fname][1], _outcome(ret2)) > 1e-7:
                        out[fname].append("ill-conditioned")
                except Exception:  # pylint: disable=broad-except
                    out[fname].append("ill-conditioned")
        except _Timeout:
            out[fname] = ["timeout"]
        except RecursionError:
            out[fname] = ["raise", "RecursionError"]
        except Exception as ex:  # pylint: disable=broad-except
            out[fname] = ["raise", type(ex).__name__, str(ex)[:120]]
    return out


# ------------------------------------------------------------------ the observation


def try_import(modname: str):
    try:
        return importlib.import_module(modname), None
    except _Timeout:
        raise
    except BaseException as ex:  # pylint: disable=broad-except
        import traceback  # pylint: disable=import-outside-toplevel
        tb = traceback.extract_tb(sys.exc_info()[2])
        where = next((f"{f.filename.split('symplyphysics/')[-1]}:{f.lineno}" for f in reversed(tb) if "symplyphysics/" in f.filename), "")
        return None, f"{type(ex).__name__}: {str(ex)[:160]} @ {where}"


def observe(modname: str, with_calls: bool = True, prepared=None, conditioning: bool = False) -> dict:
    import sympy as sp  # pylint: disable=import-outside-toplevel
    from sympy.core.function import FunctionClass  # pylint: disable=import-outside-toplevel
    mod, err = try_import(modname)
    if mod is None:
        return {"import": err}
    keys = stable_keys(mod)
    eqs = {}
    syms = {}
    for attr in sorted(vars(mod)):
        if attr.startswith("_"):
            continue
        v = vars(mod)[attr]
        if isinstance(v, sp.core.relational.Relational):
            eqs[attr] = fingerprint(v, keys)
        elif isinstance(v, (list, tuple)) and v and all(isinstance(x, sp.core.relational.Relational) for x in v):
            for i, x in enumerate(v):
                eqs[f"{attr}[{i}]"] = fingerprint(x, keys)
        elif hasattr(v, "display_name") and hasattr(v, "dimension") and isinstance(v, (sp.Basic, FunctionClass)):
            a0 = getattr(v, "assumptions0", None)
            ass = sorted((k, bool(val)) for k, val in (a0 if isinstance(a0, dict) else {}).items() if val is not None)
            syms[attr] = [str(v.display_name), str(getattr(v, "display_latex", "")), str(v.dimension), str(ass), type(v).__name__]
    out = {"import": "ok", "equations": eqs, "symbols": syms}
    if with_calls:
        out["calls"] = call_functions(mod, prepared=prepared, conditioning=conditioning)
    return out


# ------------------------------------------------------------------ the repo's own tests (thorough tier)


def test_file_for(modname: str, repo: str):
    import os  # pylint: disable=import-outside-toplevel
    parts = modname.split(".")[1:]
    if parts[0] == "laws":
        parts = parts[1:]
    path = os.path.join(repo, "test", *parts) + "_test.py"
    return path if os.path.isfile(path) else None


def run_repo_tests(modname: str, repo: str) -> dict:
    """Runs the module's own test file inside this (perturbed) process; outcome per test id."""
    import pytest  # pylint: disable=import-outside-toplevel
    path = test_file_for(modname, repo)
    if path is None:
        return {}
    outcomes = {}

    class Collect:

        def pytest_runtest_logreport(self, report):  # pylint: disable=no-self-use
            if report.when == "call" or (report.when == "setup" and report.outcome != "passed"):
                outcomes[report.nodeid.split("::", 1)[-1]] = report.outcome

    try:
        import contextlib  # pylint: disable=import-outside-toplevel
        import io  # pylint: disable=import-outside-toplevel
        with timebox(120), contextlib.redirect_stdout(io.StringIO()), contextlib.redirect_stderr(io.StringIO()):
            pytest.main([path, "-q", "-p", "no:cacheprovider", "-p", "no:randomly", "--no-header", "-x", "--timeout=100", "-o", "addopts="], plugins=[Collect()])
    except _Timeout:
        return {"<file>": "timeout"}
    except BaseException as ex:  # pylint: disable=broad-except
        return {"<file>": "error:" + type(ex).__name__}
    return outcomes


# ------------------------------------------------------------------ history helpers shared by the checks


def failed_docs_page(dep_module: str) -> str:
    """Runs the documentation parser on a synthetic law that imports `dep_module`, creates symbols and
    then raises inside an evaluation-disabled window; the error is caught like a caller would."""
    import ast as _ast  # pylint: disable=import-outside-toplevel
    from symplyphysics.docs.parse import find_members_and_functions  # pylint: disable=import-outside-toplevel
    from symplyphysics.docs.patch import patch_sympy_evaluate  # pylint: disable=import-outside-toplevel
    src = ('"""\nBroken law\n==========\n"""\nfrom sympy import Eq\nfrom symplyphysics import symbols, clone_as_symbol, Symbol, Function\n'
           f'import {dep_module} as dep\n'
           'first = clone_as_symbol(symbols.mass, subscript="1")\n"""\nFirst.\n"""\nsecond = Symbol("m")\n"""\nSecond.\n"""\n'
           'law = Eq(first, second * this_name_is_not_defined)\n"""\n:laws:symbol::\n"""\n')
    try:
        find_members_and_functions(patch_sympy_evaluate(_ast.parse(src)))
        return "no-error"
    except Exception as e:  # pylint: disable=broad-except
        return "raised:" + type(e).__name__


def churn_dimensions(k: int) -> str:
    """Temporary quantities with temporary dimension expressions: created, printed, converted, dropped."""
    import gc  # pylint: disable=import-outside-toplevel
    from sympy.physics import units  # pylint: disable=import-outside-toplevel
    from symplyphysics import Quantity, convert_to_si  # pylint: disable=import-outside-toplevel
    from symplyphysics.core.dimensions import dimension_to_si_unit  # pylint: disable=import-outside-toplevel
    out = hashlib.sha256()
    bases = [units.length, units.time, units.mass, units.temperature, units.current]
    si = [units.meter, units.second, units.kilogram, units.kelvin, units.ampere]
    for i in range(k):
        a, b = i % 5, (i * 3 + 1) % 5
        pa, pb = 1 + i % 3, 1 + (i // 3) % 2
        dim = bases[a]**pa / bases[b]**pb
        want = si[a]**pa / si[b]**pb
        try:
            unit = dimension_to_si_unit(dim)
            if unit != want:
                return f"WRONG: dimension_to_si_unit({dim}) returned {unit}, expected {want} (iteration {i})"
            q = Quantity((i + 1) * want)
            out.update(str(unit).encode())
            out.update(str(q).encode())
            out.update(str(convert_to_si(q)).encode())
        except Exception as e:  # pylint: disable=broad-except
            return f"WRONG: valid use of the quantity API raised {type(e).__name__}: {str(e)[:140]} (iteration {i}, dimension {dim})"
        del dim, unit, q
        if i % 7 == 0:
            gc.collect()
    return out.hexdigest()[:12]


# ------------------------------------------------------------------ name counters through the public API only


class Counters:
    """Per-prefix name counters, read with `last_id` and advanced with `next_id` -- the public functions
    of id_generator. A forward jump really consumes the ids in between (cheap: a dict update each), so
    no private attribute of the module is touched and a jump *is* that many creations as far as the
    counter is concerned."""

    MAX_STEP = 3_000_000

    def get(self, prefix: str, default: int = 0) -> int:
        from symplyphysics.core.symbols import id_generator  # pylint: disable=import-outside-toplevel
        try:
            return int(id_generator.last_id(prefix))
        except KeyError:
            return default

    def jump(self, prefix: str, to: int) -> bool:
        from symplyphysics.core.symbols import id_generator  # pylint: disable=import-outside-toplevel
        cur = self.get(prefix)
        if to <= cur or to - cur > self.MAX_STEP:
            return False  # forward only (backward would alias names); absurdly long jumps are skipped
        nxt = id_generator.next_id
        for _ in range(to - cur):
            nxt(prefix)
        return True

    def snapshot(self, prefixes=("SYM", "FUN", "QTY", "SYS", "VEC", "", "C")) -> dict:
        return {p: self.get(p) for p in prefixes}


COUNTERS = Counters()
