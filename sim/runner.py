"""Generic check runner: seeded search over generated op lists, judge, minimise, confirm
replay in a fresh interpreter, report, write evidence."""
from __future__ import annotations

import importlib
import json
import os
import sys
import time

from . import core
from .core import PROP_MODULES


def _load(prop: str):
    return importlib.import_module(PROP_MODULES[prop])


def _violations_of(mod, job, res, ctx):
    return mod.judge(job, res, ctx)


def minimise(pool: core.Pool, mod, job: dict, cls: str, ctx, log=core.log, max_rounds: int = 40, wall_s: float = 150.0) -> dict:
    """ddmin over the op list, then per-op argument simplification, accepting a candidate
    only if a violation of the same class persists. Every candidate runs in a fresh child.
    Bounded by `wall_s`: when it runs out the best schedule found so far is reported."""
    deadline = time.monotonic() + wall_s

    def fails_many(cands_ops):
        if time.monotonic() > deadline:
            return [False] * len(cands_ops)
        jobs = [dict(job, ops=o) for o in cands_ops]
        ress = pool.run(jobs)
        return [any(v["cls"] == cls for v in _violations_of(mod, j, r, ctx)) for j, r in zip(jobs, ress)]

    min_len = getattr(mod, "MIN_OPS", 1)
    ops = core.ddmin(list(job["ops"]), fails_many, min_len=min_len)
    job = dict(job, ops=ops)
    if hasattr(mod, "simplify"):
        for _ in range(max_rounds):
            cands = mod.simplify(job)
            if not cands or time.monotonic() > deadline:
                break
            ress = pool.run(cands)
            hit = None
            for c, r in zip(cands, ress):
                if any(v["cls"] == cls for v in _violations_of(mod, c, r, ctx)):
                    hit = c
                    break
            if hit is None:
                break
            job = hit
        base = job
        ops2 = core.ddmin(list(job["ops"]), lambda cs: [False] * len(cs) if time.monotonic() > deadline else [any(v["cls"] == cls for v in _violations_of(mod, dict(base, ops=o), r, ctx)) for o, r in zip(cs, pool.run([dict(base, ops=o) for o in cs]))], min_len=min_len)
        job = dict(job, ops=ops2)
    return job


def replay_file(prop: str, path: str) -> int:
    mod = _load(prop)
    with open(path) as f:
        payload = json.load(f)
    job = payload["job"]
    ctx = None
    pool = core.Pool(prop, workers=min(4, os.cpu_count() or 1))
    try:
        if hasattr(mod, "prepare_replay"):
            ctx = mod.prepare_replay(pool, job)
        res = pool.run([job])[0]
    finally:
        pool.close()
    vs = _violations_of(mod, job, res, ctx)
    core.log(f"replay status={res.get('status')} digest={(res.get('result') or {}).get('digest')}")
    if vs:
        for v in vs:
            core.log("  violated:", v.get("cls"), "-", str(v.get("detail"))[:400])
        core.log(f"VIOLATION property={prop} replay={path}")
        return 1
    core.log("replay: property held on this schedule")
    return 0


def run_check(prop: str, tier: str, seed: int) -> int:
    mod = _load(prop)
    t0 = time.monotonic()
    budget = float(os.environ.get("VERIF_BUDGET_S", mod.BUDGET_S[tier] if hasattr(mod, "BUDGET_S") else (60 if tier == "quick" else 1800)))
    max_runs = int(os.environ.get("VERIF_MAX_RUNS", mod.MAX_RUNS[tier] if hasattr(mod, "MAX_RUNS") else (2000 if tier == "quick" else 10**9)))
    batch = getattr(mod, "BATCH", 256)
    core.log(f"VERIF_SEED={seed} property={prop} tier={tier} budget_s={budget} max_runs={max_runs} workers={os.environ.get('VERIF_WORKERS', os.cpu_count())}")
    pool = core.Pool(prop)
    stats = core.Stats()
    found: dict[str, tuple[dict, dict]] = {}  # class+subject -> (job, violation)
    harness_errors = []
    ctx = None
    try:
        if hasattr(mod, "prepare"):
            ctx = mod.prepare(pool, tier, seed, stats)
        for job, res in (ctx or {}).pop("prejudge", []) if isinstance(ctx, dict) else []:
            stats.add_result(job, res)
            for v in _violations_of(mod, job, res, ctx):
                found.setdefault(v["cls"] + "|" + str(v.get("subject", "")), (job, v))
        run = 0
        sys_jobs = mod.systematic_jobs(tier, seed, ctx) if hasattr(mod, "systematic_jobs") else []
        queue_iter = iter(sys_jobs)
        exhausted_sys = False
        while True:
            jobs = []
            if not exhausted_sys:
                for j in queue_iter:
                    jobs.append(j)
                    if len(jobs) >= batch:
                        break
                else:
                    exhausted_sys = True
            if exhausted_sys and not jobs:
                min_runs = getattr(mod, "MIN_RUNS", {}).get(tier, 0)
                if run >= max_runs or (time.monotonic() - t0 > budget and run >= min_runs):
                    break
                n = min(batch, max_runs - run)
                jobs = [mod.generate(seed, run + k, tier) for k in range(n)]
                run += n
            if not jobs:
                continue
            ress = pool.run(jobs)
            if hasattr(mod, "before_judge"):
                mod.before_judge(pool, jobs, ress, ctx)
            for job, res in zip(jobs, ress):
                stats.add_result(job, res)
                if res.get("status") in ("harness_error", "zygote_died", "zygote_hung"):
                    harness_errors.append((job, res))
                    continue
                for v in _violations_of(mod, job, res, ctx):
                    key = v["cls"] + "|" + str(v.get("subject", ""))
                    if key not in found:
                        found[key] = (job, v)
                if len(stats.samples) < 3 and res.get("status") == "ok":
                    stats.samples.append({"run": job.get("run"), "env": job["env"], "ops": job["ops"][:12], "digest": (res.get("result") or {}).get("digest")})
            if len(found) >= 8:
                break
        # ---------------------------------------------------------------- reporting
        known = core.load_known(prop)
        known_keys = {e["key"]: e for e in known if e.get("status") == "known"}
        n_viol = 0
        n_known = 0
        reported_keys = set()
        max_report = int(os.environ.get("VERIF_MAX_REPORT", 6))
        if len(found) > max_report:
            core.log(f"{len(found)} distinct violation classes seen; reporting the first {max_report} (sorted): the others are: {[k for k in sorted(found)][max_report:max_report + 20]}")
        for n_rep, (key, (job, v)) in enumerate(sorted(found.items())):
            if n_rep >= max_report:
                break
            core.log(f"candidate violation {key}: minimising ({len(job['ops'])} ops) ...")
            small = minimise(pool, mod, job, v["cls"], ctx, wall_s=150.0 if n_rep < 3 else 30.0)
            # confirm in a fresh interpreter
            fres = core.run_fresh(prop, small) if not hasattr(mod, "run_fresh") else mod.run_fresh(small, ctx)
            fvs = [x for x in _violations_of(mod, small, fres, ctx) if x["cls"] == v["cls"]]
            if not fvs:
                core.log(f"HARNESS-NONDETERMINISM property={prop} class={key}: minimised schedule did not fail again in a fresh interpreter")
                harness_errors.append((small, fres))
                continue
            fv = fvs[0]
            fkey = mod.finding_key(small, fv)
            if fkey in reported_keys:
                continue
            reported_keys.add(fkey)
            if fkey in known_keys:
                core.log(f"KNOWN-FINDING: property={prop} {known_keys[fkey]['what']}")
                n_known += 1
                continue
            name = f"{seed}-{small.get('run', 'sys')}-{core.digest(small['ops'])[:10]}"
            path = core.write_replay(prop, name, {"property": prop, "seed": seed, "key": fkey, "violation": fv, "job": small, "original_ops": len(job["ops"])})
            core.log(f"  oracle={fv.get('oracle')} detail={str(fv.get('detail'))[:500]}")
            core.log(f"  minimised to {len(small['ops'])} ops (from {len(job['ops'])}); key={fkey[:300]}")
            core.log(f"VIOLATION property={prop} replay={path}")
            n_viol += 1
    finally:
        pool.close()
    wall = time.monotonic() - t0
    cov = {
        "evaluations": stats.runs,
        "distinct_nontrivial": len(stats.digests_nontrivial),
        "rule": getattr(mod, "RULE", ""),
        "samples": stats.samples,
        "distinct_run_digests": len(stats.digests),
        "distinct_states": len(stats.states),
        "state_measure": getattr(mod, "STATE_MEASURE", ""),
        "steps_executed": stats.steps,
        "simulated_time_note": "there is no clock in this system; simulated time is reported as logical steps (ops interpreted)",
        "runs_per_hour": int(stats.runs / wall * 3600) if wall > 0 else 0,
        "seeds_per_hour": int(stats.runs / wall * 3600) if wall > 0 else 0,
        "seed_note": "every run draws from its own PRNG stream sha256(VERIF_SEED/property/run/stream): one run = one derived seed = one exactly repeatable execution",
        "fault_counts": dict(stats.faults),
        "reach_probes": dict(sorted(stats.probes.items())),
        "inconclusive": dict(stats.inconclusive),
        "run_status": dict(stats.status),
        "known_findings_matched": n_known,
        "harness_errors": len(harness_errors),
        "zygotes_spawned": pool.spawned,
        "components": getattr(mod, "COMPONENTS", {}),
    }
    if hasattr(mod, "extra_coverage"):
        cov.update(mod.extra_coverage(stats, ctx))
    core.write_evidence(prop, tier, seed, cov, getattr(mod, "ASSUMPTIONS", []), wall, n_viol)
    core.log(f"runs={stats.runs} distinct_nontrivial={len(stats.digests_nontrivial)} states={len(stats.states)} faults={dict(stats.faults)} inconclusive={dict(stats.inconclusive)} status={dict(stats.status)} wall={wall:.1f}s")
    if harness_errors:
        for job, res in harness_errors[:3]:
            core.log("HARNESS-ERROR:", res.get("status"), (res.get("error") or "")[-1500:])
        return 3
    if n_viol:
        return 1
    if stats.runs == 0:
        core.log("HARNESS-ERROR: no runs executed")
        return 3
    return 0
