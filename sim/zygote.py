"""Zygote: a fresh interpreter whose only history is `import symplyphysics` (from /repo)
plus the property's `zygote_init()` (imports only; must not create library objects).
For every job line on stdin it forks one child, which interprets the job's op list and
writes one JSON result; the zygote relays it on the protocol fd.

This file is started as a script (never `python -m`), so no module is loaded twice.
"""
import importlib
import json
import os
import select
import signal
import sys
import time
import traceback

VERIF = os.path.dirname(os.path.dirname(os.path.abspath(__file__)))
REPO = os.environ.get("VERIF_REPO", "/repo")


def main() -> None:
    prop = sys.argv[1]
    # protocol goes over a private duplicate of stdout; fd 1 is pointed at stderr so that
    # nothing the library prints can corrupt the protocol
    proto = os.fdopen(os.dup(1), "wb")
    os.dup2(2, 1)
    sys.stdout = sys.stderr

    sys.path.insert(0, VERIF)
    sys.path.insert(0, REPO)
    sys.setrecursionlimit(3000)
    from sim.core import PROP_MODULES  # pylint: disable=import-outside-toplevel
    import symplyphysics  # pylint: disable=import-outside-toplevel
    assert os.path.abspath(symplyphysics.__file__).startswith(os.path.abspath(REPO)), symplyphysics.__file__
    from sim.observe import COUNTERS  # pylint: disable=import-outside-toplevel
    base = COUNTERS.snapshot()
    mod = importlib.import_module(PROP_MODULES[prop])
    if hasattr(mod, "zygote_init"):
        mod.zygote_init()
    after = COUNTERS.snapshot()
    proto.write((json.dumps({"ready": True, "base": base, "after_init": after, "pid": os.getpid()}) + "\n").encode())
    proto.flush()

    inp = sys.stdin.buffer
    for line in inp:
        if not line.strip():
            continue
        job = json.loads(line)
        idx = job.pop("idx", None)
        timeout = float(job.get("timeout", 60))
        r, w = os.pipe()
        pid = os.fork()
        if pid == 0:
            # ---------------- child
            try:
                os.close(r)
                try:
                    res = mod.child_run(job)
                    data = json.dumps({"ok": res}, default=str).encode()
                except BaseException:  # pylint: disable=broad-except
                    data = json.dumps({"harness_error": traceback.format_exc()[-4000:]}).encode()
                off = 0
                while off < len(data):
                    off += os.write(w, data[off:off + (1 << 16)])
            finally:
                os._exit(0)  # pylint: disable=protected-access
        # ---------------- zygote
        os.close(w)
        chunks = []
        deadline = time.monotonic() + timeout
        status = "ok"
        while True:
            left = deadline - time.monotonic()
            if left <= 0:
                status = "timeout"
                break
            rl, _, _ = select.select([r], [], [], min(left, 1.0))
            if not rl:
                continue
            chunk = os.read(r, 1 << 20)
            if not chunk:
                break
            chunks.append(chunk)
        if status == "timeout":
            try:
                os.kill(pid, signal.SIGKILL)
            except ProcessLookupError:
                pass
        os.close(r)
        _, wstatus = os.waitpid(pid, 0)
        out = {"idx": idx, "status": status, "result": None}
        if status == "ok":
            raw = b"".join(chunks)
            if not raw:
                out["status"] = "crash"
                out["signal"] = os.WTERMSIG(wstatus) if os.WIFSIGNALED(wstatus) else None
            else:
                msg = json.loads(raw)
                if "harness_error" in msg:
                    out["status"] = "harness_error"
                    out["error"] = msg["harness_error"]
                else:
                    out["result"] = msg["ok"]
        proto.write((json.dumps(out) + "\n").encode())
        proto.flush()


if __name__ == "__main__":
    main()
