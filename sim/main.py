"""Launcher (a script, so no module is imported twice)."""
import argparse
import faulthandler
import os
import sys

HERE = os.path.dirname(os.path.dirname(os.path.abspath(__file__)))
sys.path.insert(0, HERE)

from sim import core, runner  # noqa: E402  pylint: disable=wrong-import-position


def main() -> int:
    ap = argparse.ArgumentParser()
    ap.add_argument("prop")
    ap.add_argument("--tier", default=os.environ.get("VERIF_TIER", "quick"), choices=["quick", "thorough"])
    ap.add_argument("--replay")
    args = ap.parse_args()
    seed = int(os.environ.get("VERIF_SEED", core.DEFAULT_SEED))
    faulthandler.enable()
    # a hung driver dumps its stacks and dies rather than waiting forever
    hard = float(os.environ.get("VERIF_HARD_CAP_S", 6 * 3600))
    faulthandler.dump_traceback_later(hard, exit=True)
    if args.prop == "selftest":
        from sim import selftest  # pylint: disable=import-outside-toplevel
        return selftest.main(seed)
    if args.replay:
        return runner.replay_file(args.prop, args.replay)
    return runner.run_check(args.prop, args.tier, seed)


if __name__ == "__main__":
    try:
        rc = main()
    except SystemExit:
        raise
    except BaseException:  # pylint: disable=broad-except
        import traceback
        traceback.print_exc()
        print("HARNESS-ERROR: the check itself failed (this is not a verdict about the property)", flush=True)
        rc = 3
    sys.exit(rc)
