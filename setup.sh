#!/bin/sh
# Offline setup: nothing is built or fetched; byte-compile the framework and make
# sure the repo's interpreter can import it.
set -e
cd "$(dirname "$0")"
/venv/bin/python -m compileall -q sim >/dev/null
/venv/bin/python -c "import sys; sys.path.insert(0, '.'); import sim.core"
echo setup-ok
