#!/bin/sh
# Offline setup: nothing is built or fetched; byte-compile the framework, make sure the repo's
# interpreter can import it, and prove determinism on a handful of seeds (same seed twice, at two
# worker counts, in separate fresh interpreters; digests must be equal).
set -e
cd "$(dirname "$0")"
/venv/bin/python -m compileall -q sim >/dev/null
/venv/bin/python -c "import sys; sys.path.insert(0, '.'); import sim.core, sim.runner, sim.c14_vectors, sim.c03_history, sim.c09_identity, sim.c19_docs"
VERIF_SELFTEST_RUNS=6 ./check selftest
echo setup-ok
