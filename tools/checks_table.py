"""Claimed checks (source of MANIFEST.json 'checks')."""

def _check(pid, text, note, technique, design_ref):
    return {
        "property_id": pid,
        "quick_cmd": f"./check {pid} --tier quick",
        "thorough_cmd": f"./check {pid} --tier thorough",
        "evidence_file": f"evidence/{pid}.json",
        "replay_cmd_template": f"./check {pid} --replay {{path}}",
        "engine": "detsim",
        "level_claimed": {"category": "exploration", "text": text, "design_ref": design_ref},
        "level_note": note,
        "technique": technique,
    }

CHECKS = [
    _check(
        "C14",
        "Seeded search over schedules of (creation order, simulator-assigned object identities, SymPy cache evictions between and inside constructor calls, counter jumps, evaluation mode, hash seed, cache size) x generated vector expressions; every auto-evaluated, doit-evaluated and differentiated result is compared with a 60-digit reference evaluation of the model expression at two rational points; RecursionError or exceeding a logical step budget is a termination violation. Sampling, not proof: a clean batch is evidence that no rewrite rule reachable by the generator is unsound under the identity orders and eviction points drawn.",
        "Trusted: mpmath, SymPy core arithmetic/diff on plain polynomials (oracle side), CPython fork. Virtual identities replace id() inside the vectors module only; address reuse after GC is not modelled. clear_cache() stands for LRU eviction.",
        "deterministic simulation: seeded schedule + fault (cache eviction / identity order) search with reference-model oracle, ddmin-minimised replay files",
        "DESIGN.md section 5",
    ),
]
