"""Claimed checks (source of MANIFEST.json 'checks')."""

def _check(pid, text, note, technique, design_ref):
    return {
        "property_id": pid,
        "quick_cmd": f"./check {pid} --tier quick",
        "thorough_cmd": f"./check {pid} --tier thorough",
        "evidence_file": f"evidence/{pid}.json",
        "replay_cmd_template": f"./check {pid} --replay {{path}}",
        "engine": "detsim",
        "level_claimed": {"category": "exploration", "text": text, "design_ref": design_ref},
        "level_note": note,
        "technique": technique,
    }

CHECKS = [
    _check(
        "C14",
        "Seeded search over schedules of (creation order, simulator-assigned object identities incl. address reuse, SymPy cache evictions between and inside constructor calls, injected interrupts at seam calls, counter jumps, evaluation mode, display-name collisions, hash seed, cache size, SymPy cache switched off for the whole process) x generated vector expressions (incl. templates of the shapes the rewrite rules target, functions with declared signatures / literal-zero arguments / several argument tuples, sqrt coefficients), plus long sessions of thousands of small products and deterministic thread interleavings (real threads, baton passing, settrace pre-emption points); every auto-evaluated, doit-evaluated and differentiated result is compared with a 60-digit reference evaluation of the model expression at two rational points; RecursionError under a fixed recursion limit is a termination violation (exceeding the logical step budget is only inconclusive); reference and library output are evaluated at 60 and 120 digits so that rounding is never mistaken for a wrong value. Sampling, not proof: a clean batch is evidence that no rewrite rule reachable by the generator is unsound under the identity orders and eviction points drawn.",
        "Trusted: mpmath, SymPy core arithmetic/diff on plain polynomials (oracle side), CPython fork. Virtual identities replace id() inside the vectors module only; address reuse after GC is not modelled. clear_cache() stands for LRU eviction.",
        "deterministic simulation: seeded schedule + fault (cache eviction / identity order) search with reference-model oracle, ddmin-minimised replay files",
        "DESIGN.md section 5",
    ),
    _check(
        "C03",
        "Every one of the 694 catalogue modules is observed under the canonical history and under six digit-boundary counter placements inside its own allocation (systematic part), every package is imported and observed in one seeded order and in its reverse (every ordered pair inside a package), the whole catalogue is imported in two orders, every module is re-observed after the user created objects of their own (wrappers, functions, quantities, indexed symbols, points) and churned temporary dimensions; then a seeded search over histories (real imports in random order incl. dependents-first, real creations incl. in another thread, forward counter jumps to L*10^d-j for SYM/FUN/QTY, cache evictions, calculate_* use with equal/nearby arguments, arguments created long before use, printing of equations, documentation pages generated or failing (once or twice in a row, recovery by assignment or through reset_sympy_evaluation()) before use, 4 zygote configurations of hash seed x cache size, and 6 % of the short random histories in a process with SymPy's cache switched off) observes 1-3 target modules per run. Oracle: import succeeds; numeric meaning fingerprints of every published equation, symbol metadata and every returning calculate_* outcome equal those of the same tree under the canonical history. Sampling over histories, exhaustive over modules for the systematic placements.",
        "Self-differential: the reference is the same tree in a fresh process; a behaviour that is wrong in every history is invisible except for import failure. Jump == bulk creation is sample-tested. Trusted: CPython import/fork, SymPy N/subs/doit inside the fingerprint.",
        "deterministic simulation: seeded history (import order / counter state / cache eviction) search against the canonical-history run of the same code, ddmin-minimised replay files",
        "DESIGN.md section 3",
    ),
    _check(
        "C09",
        "21 systematic display-name ladders (per kind, stem and assumption set: 12 or 101 objects with one display name among objects displayed as stem+digits, clones, eviction, digit-boundary jump) and a seeded search over creation/clone sequences (5-60 ops; display names from a small colliding pool incl. names that look like internal ones; all clone helpers; coordinate systems, transforms and rotations; quantities incl. copies and dimension overrides; symbolic wrappers; experimental vector symbols/functions that mint from the same counters; creation by keyword and in another thread; 12 % of the runs in a process started with SYMPY_USE_CACHE=no) interleaved with perturbations (forward counter jumps to digit boundaries, real bulk creation up to 9000, cache eviction, dropping objects + gc so addresses are reused, churn of short-lived sources, creation while the evaluate flag is off, catalogue imports, a failing documentation page). After every step: pairwise distinctness, unique generated names, every earlier object reads back its names/dimension/assumptions/scale factor (durability), clone contract against a reference model; at the end: independence under subs/diff/solve on a prime-weighted sum judged numerically, abs() of quantities, SI registry vs attributes, print_expression/code_str (bare, in lists, in indexed sums/products, inside wrappers, after doit/simplify rebuilt the expression, after the original was dropped) show display names and no generated name, LaTeX names stay put. Sampling, not proof.",
        "Reference model (expected names/assumptions) is hand-written (about 60 lines); expected assumptions come from plain sympy.Symbol with the same kwargs. Quantities are valued by their scale factor (SymPy may relate quantities of one dimension). Trusted: SymPy subs/diff/solve on linear sums.",
        "deterministic simulation: seeded operation + perturbation sequences checked step by step against an abstract-identity reference model, ddmin-minimised replay files",
        "DESIGN.md section 4",
    ),
    _check(
        "C19",
        "The real generator and role post-processor run against an in-memory file system seam: the full tree is generated in four zygote configurations (hash seed x cache size) and under shuffled directory listings and must be byte-identical to the reference generation; seeded runs then generate sub-trees, single pages in random order and synthetic documented trees (shapes the real tree lacks; 10 % of these two kinds in a process with SYMPY_USE_CACHE=no) after pre-histories (imports, counter jumps, cache evictions), repeated in one process, over stale output, and with I/O faults (ENOSPC/EIO/EACCES at the k-th write-open/write/close/mkdir/read-open/read/listdir) followed by recovery. Oracles: total; page set equals an independent 15-line model of 'documented'; each page written once; documented variables/functions of every page equal an independent reading of the source; no residual or mangled placeholder; renderings sit in their own member block; symbol tables and formula meaning equal those of the really imported module; post-processing changes nothing but the roles (independent normal form); every cross-reference target exists by getattr; synthetic trees add docstring association, package contents, rendering-as-written and regeneration-after-edit oracles; the file seam is a real TextIOWrapper over bytes with a simulated locale encoding and logical mtimes; evaluation flag default after every page and at the end plus behavioural probes; under faults the call may fail but never silently. Sampling over schedules/faults; exhaustive over the 735 real pages for the determinism and page-set oracles.",
        "Seam is at open()/os.walk/Path as module globals of the two build modules; the I/O stack below open() and Sphinx are not exercised. Byte equality only for equal histories; across histories the page skeleton and formula meaning. Trusted: SymPy numeric evaluation inside the meaning fingerprint.",
        "deterministic simulation: seeded schedules of page order / listing order / hash seed / pre-history with injected I/O faults on a simulated file system, byte and structure oracles, ddmin-minimised replay files",
        "DESIGN.md section 6",
    ),
]
