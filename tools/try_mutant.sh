#!/bin/sh
# usage: tools/try_mutant.sh <PROP> <dir-with-patch.diff>
# Applies the patch in a scratch worktree of /repo HEAD (never touches /repo itself), points the
# check at it through VERIF_REPO, runs the quick check, removes the worktree. Prints the verdict.
PROP=$1; DIR=$2
NAME=$(basename "$DIR")
WT=/tmp/wt_try_${PROP}_${NAME}_$$
git -C /repo worktree add -q --detach "$WT" HEAD || exit 9
if ! git -C "$WT" apply "$DIR/patch.diff" 2>/dev/null; then
  echo "PATCH-DOES-NOT-APPLY $DIR"; git -C /repo worktree remove --force "$WT"; exit 8
fi
cd "$(dirname "$0")/.." || exit 9
LOG="/tmp/mutant_${NAME}_$PROP.log"
VERIF_REPO="$WT" ./check "$PROP" --tier quick > "$LOG" 2>&1
RC=$?
git -C /repo worktree remove --force "$WT"
echo "mutant $DIR prop=$PROP exit=$RC $(grep -c '^VIOLATION' "$LOG") violation lines"
grep -E "^VIOLATION|oracle=|HARNESS" "$LOG" | cut -c1-300 | head -6
exit 0
