#!/bin/sh
# usage: tools/try_mutant.sh <PROP> <dir-with-patch.diff> [extra env...]
# applies the patch to /repo, runs the quick check, reverts /repo. Prints verdict.
PROP=$1; DIR=$2
cd /repo || exit 9
if ! git apply --check "$DIR/patch.diff" 2>/dev/null; then
  if ! git apply --3way --check "$DIR/patch.diff" 2>/dev/null; then echo "PATCH-DOES-NOT-APPLY $DIR"; exit 8; fi
  git apply --3way "$DIR/patch.diff" >/dev/null 2>&1; git reset -q
else
  git apply "$DIR/patch.diff"
fi
cd /verif
./check "$PROP" --tier quick > "/tmp/mutant_$(basename "$DIR")_$PROP.log" 2>&1
RC=$?
git -C /repo checkout -- . 
echo "mutant $DIR prop=$PROP exit=$RC $(grep -c '^VIOLATION' /tmp/mutant_$(basename "$DIR")_$PROP.log) violation lines"
grep -E "^VIOLATION|oracle=|HARNESS" "/tmp/mutant_$(basename "$DIR")_$PROP.log" | cut -c1-300 | head -6
