#!/bin/sh
# Replays every recorded finding (findings/*.json) twice: against the pinned original tree (a scratch
# worktree of the root commit, removed afterwards) where each must reproduce as a VIOLATION, and
# against /repo as it is now, where each must hold.
cd "$(dirname "$0")/.." || exit 9
ROOT=$(git -C /repo rev-list --max-parents=0 HEAD)
WT=/tmp/wt_pinned_$$
git -C /repo worktree add -q --detach "$WT" "$ROOT" || exit 9
BAD=0
for f in findings/*.json; do
  p=$(basename "$f" | cut -d- -f1)
  old=$(VERIF_REPO="$WT" ./check "$p" --replay "$f" 2>&1 | grep -cE "^VIOLATION")
  new=$(./check "$p" --replay "$f" 2>&1 | grep -c "property held on this schedule")
  echo "$(basename "$f"): pinned tree violation=$old, current tree held=$new"
  [ "$old" = "1" ] && [ "$new" = "1" ] || BAD=1
done
git -C /repo worktree remove --force "$WT"
exit $BAD
