#!/bin/sh
# usage: tools/soak.sh <PROP> <first-seed> <n-seeds> [tier]
# Runs the check under many seeds; prints one line per seed and every VIOLATION/HARNESS line.
PROP=$1; FIRST=$2; N=$3; TIER=${4:-quick}
i=0
while [ $i -lt $N ]; do
  SEED=$((FIRST + i))
  VERIF_SEED=$SEED ./check $PROP --tier $TIER > /tmp/soak_${PROP}_$SEED.log 2>&1
  RC=$?
  echo "seed=$SEED exit=$RC $(grep '^runs=' /tmp/soak_${PROP}_$SEED.log | cut -c1-160)"
  grep -E "^VIOLATION|oracle=|HARNESS|KNOWN-FINDING" /tmp/soak_${PROP}_$SEED.log | cut -c1-400
  i=$((i + 1))
done
