#!/bin/sh
# Sensitivity run: every kept seeded change under /verif/seeded/<PROP>-<k>/ must make its
# property's quick check exit 1. Writes seeded/RESULTS.txt.
cd "$(dirname "$0")/.." || exit 9
HERE=$(pwd)
OUT=seeded/RESULTS.txt
: > $OUT
for d in seeded/*/; do
  id=$(basename "$d"); prop=${id%%-*}
  [ -f "$d/patch.diff" ] || continue
  line=$(tools/try_mutant.sh "$prop" "$HERE/$d" 2>&1 | head -1)
  echo "$id: $line" | tee -a $OUT
done
