#!/bin/sh
# Sensitivity run: every kept seeded change under /verif/seeded/<PROP>-<k>/ must make its
# property's quick check exit 1. Writes seeded/RESULTS.txt (or seeded/RESULTS_<PROP>.txt when a
# property is given as the first argument: `tools/run_seeded.sh C14` re-runs only the C14 changes).
cd "$(dirname "$0")/.." || exit 9
HERE=$(pwd)
ONLY=$1
OUT=seeded/RESULTS${ONLY:+_$ONLY}.txt
: > $OUT
for d in seeded/${ONLY:-*}*/; do
  id=$(basename "$d"); prop=${id%%-*}
  [ -f "$d/patch.diff" ] || continue
  line=$(tools/try_mutant.sh "$prop" "$HERE/$d" 2>&1 | head -1)
  echo "$id: $line" | tee -a $OUT
done
