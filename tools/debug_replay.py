"""In-process (no fork) execution of a replay file's job, for debugging with tracebacks.
usage: /venv/bin/python tools/debug_replay.py C14 <replay.json> [recursionlimit]"""
import json, os, sys
HERE = os.path.dirname(os.path.dirname(os.path.abspath(__file__)))
sys.path.insert(0, HERE); sys.path.insert(0, os.environ.get("VERIF_REPO", "/repo"))
import symplyphysics  # noqa
from sim import core
import importlib
prop, path = sys.argv[1], sys.argv[2]
mod = importlib.import_module(core.PROP_MODULES[prop])
if hasattr(mod, "zygote_init"):
    mod.zygote_init()
if len(sys.argv) > 3:
    sys.setrecursionlimit(int(sys.argv[3]))
job = json.load(open(path))["job"]
os.environ["VERIF_DEBUG"] = "1"
res = mod.child_run(job)
print(json.dumps({k: v for k, v in res.items() if k not in ("probes", "events")}, indent=1, default=str)[:3000])
