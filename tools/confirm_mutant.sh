#!/bin/sh
# usage: tools/confirm_mutant.sh <PROP> <k> <srcdir>   (srcdir has patch.diff demo.py meta.json)
# Confirms in a scratch worktree (outside /repo and /verif, removed afterwards): demo passes on the
# pristine tree, fails with the patch, and the unedited test suite still passes with the patch.
PROP=$1; K=$2; SRC=$3
WT=/tmp/wt_confirm_${PROP}_$K
OUT=/verif/seeded/$PROP-$K
git -C /repo worktree add -q --detach $WT HEAD || exit 9
cd $WT
PYTHONPATH=$WT timeout 600 /venv/bin/python $SRC/demo.py > /tmp/confirm_${PROP}_${K}_clean.log 2>&1; RC_CLEAN=$?
if ! git apply $SRC/patch.diff; then echo "patch does not apply"; git -C /repo worktree remove --force $WT; exit 8; fi
PYTHONPATH=$WT timeout 600 /venv/bin/python $SRC/demo.py > /tmp/confirm_${PROP}_${K}_patched.log 2>&1; RC_PATCHED=$?
PYTHONPATH=$WT timeout 3000 /venv/bin/python -m pytest -q -p no:cacheprovider -n 4 --timeout=900 > /tmp/confirm_${PROP}_${K}_tests.log 2>&1; RC_TESTS=$?
TESTS=$(tail -1 /tmp/confirm_${PROP}_${K}_tests.log)
cd /verif
git -C /repo worktree remove --force $WT
echo "$PROP-$K demo_clean=$RC_CLEAN demo_patched=$RC_PATCHED tests_rc=$RC_TESTS ($TESTS)"
if [ $RC_CLEAN -eq 0 ] && [ $RC_PATCHED -ne 0 ] && [ $RC_TESTS -eq 0 ]; then
  mkdir -p $OUT
  cp $SRC/patch.diff $OUT/patch.diff; cp $SRC/demo.py $OUT/demo.py
  /venv/bin/python - "$SRC/meta.json" "$OUT/meta.json" "$PROP" "$RC_CLEAN" "$RC_PATCHED" "$TESTS" <<'PY'
import json, sys
src, out, prop, rc_clean, rc_patched, tests = sys.argv[1:7]
try:
    m = json.load(open(src))
except Exception:
    m = {}
meta = {
    "property": prop,
    "summary": m.get("summary"),
    "needs": m.get("needs"),
    "author": "independent sub-agent given only the property text and a scratch worktree",
    "confirmed": {
        "how": "tools/confirm_mutant.sh in a scratch worktree of /repo HEAD (removed afterwards)",
        "demo_on_pristine_exit": int(rc_clean),
        "demo_with_patch_exit": int(rc_patched),
        "test_suite_with_patch": tests.strip(),
    },
}
json.dump(meta, open(out, "w"), indent=1)
PY
  echo "kept -> $OUT"
else
  echo "NOT kept"
fi
