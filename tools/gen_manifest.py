#!/usr/bin/env python3
"""Regenerates /verif/MANIFEST.json from the table below (kept as code so that the
file is always schema-valid and the N/A reasons live in one place)."""
import json, os, sys

HERE = os.path.dirname(os.path.dirname(os.path.abspath(__file__)))

NA = {
 "C01": "Dimension homogeneity is a static property of each published formula and the declared dimensions; no schedule, clock, fault, interleaving or history can change it (which formula a module publishes under a given history is decided under C03). Pure function of input: not a simulation target.",
 "C02": "calculate_* is a pure function of its arguments; 'returned value solves the law' is quantified over argument tuples only. History-independence of the same calls is decided under C03 (oracle V4).",
 "C04": "The validators (_assert_expected_unit / assert_equivalent_dimension) read and write no state; pure function of (argument, declared dimension).",
 "C05": "Pure structural recursion over an expression; the only state it appends to (SI tables) is covered by C09's durability invariant.",
 "C06": "Pure structural recursion over an expression; no memo, no globals.",
 "C07": "Pure arithmetic on scale factors and a constant offset; nothing to schedule or fault.",
 "C08": "A stateless predicate of two values and two tolerances.",
 "C10": "Pure symbolic algebra on plain SymPy symbols; coordinate-system names come from the counters but results depend on them only through identity (C09).",
 "C11": "Pure symbolic substitution.",
 "C12": "Pure symbolic differentiation.",
 "C13": "Pure symbolic integration.",
 "C15": "Pure conversion/dispatch tables; substitution targets never overlap sources.",
 "C16": "solve_for_vector's meaning is a function of (equation, unknown); its term order varies with object identity but the property quantifies inputs only. The identity/cache behaviour of the helpers it shares with the vector algebra is decided under C14.",
 "C17": "code_str builds a fresh printer per call: pure function expr -> str.",
 "C18": "latex_str builds a fresh printer per call: pure function expr -> str.",
 "C20": "A finite constant table; nothing executes, nothing to schedule or fault.",
}

CHECKS = {}   # filled by tools/checks_table.py once a check exists

def main():
    sys.path.insert(0, os.path.join(HERE, "tools"))
    try:
        import checks_table
        checks = checks_table.CHECKS
    except ImportError:
        checks = []
    claimed = {c["property_id"] for c in checks}
    man = {
        "version": 1,
        "setup_cmd": "./setup.sh",
        "hooks": {
            "guard": "SYMPLYPHYSICS_VERIF",
            "enable": "no source hooks exist: every seam used by the simulator (public next_id/last_id, module-global shadowing of `id`, `open`, `os`, `Path`, `shutil` and of helper functions, sympy clear_cache, sys.settrace, PYTHONHASHSEED, SYMPY_CACHE_SIZE) is reachable from outside the package; the guard name is reserved and unused",
            "baseline_off_cmd": "cd /repo && /venv/bin/python -m pytest -ra -q -p no:cacheprovider --timeout=900 --continue-on-collection-errors",
            "source_commits": [],
            "add_only": True,
        },
        "engines": [{
            "name": "detsim",
            "path": "sim/",
            "serves_properties": sorted(claimed),
            "kind_free_text": "hand-written deterministic simulator: zygote/fork-per-run process pool, explicit op lists generated from one seed, virtual object identities, counter jumps, cache eviction and I/O faults injected at module-global seams, ddmin minimisation, replay files",
        }],
        "checks": checks,
        "not_applicable": [{"property_id": k, "reason": v} for k, v in sorted(NA.items()) if k not in claimed],
        "notes": "Technique family: deterministic simulation with fault injection. See DESIGN.md section 0 for the verdict per property.",
    }
    with open(os.path.join(HERE, "MANIFEST.json"), "w") as f:
        json.dump(man, f, indent=1)
        f.write("\n")
    try:
        import jsonschema
        jsonschema.validate(man, json.load(open("/root/.vp/MANIFEST.schema.json")))
        print("MANIFEST.json valid;", len(checks), "checks,", len(man["not_applicable"]), "n/a")
    except ImportError:
        print("written (jsonschema not importable here)")

if __name__ == "__main__":
    main()
